"""Check driver: plan -> shard -> worker subprocesses -> classify against known findings ->
evidence + verdict.

Verdicts are three-valued:
  exit 0  held on everything observed (KNOWN-FINDING lines for listed findings that reproduce)
  exit 1  VIOLATION property=<id> replay=<path>   (a violation that known_findings/baseline do not list)
  exit 2  INCONCLUSIVE (watchdog, dead shard, a monitor that never evaluated, baseline mismatch)
"""
import hashlib
import importlib
import json
import os
import shutil
import subprocess
import sys
import tempfile
import time

from vf import env, findings

NPROC = int(os.environ.get("VERIF_JOBS", "16"))


def repo_rev():
    try:
        r = subprocess.run(["git", "-C", env.REPO, "rev-parse", "--short", "HEAD"], capture_output=True, text=True)
        d = subprocess.run(["git", "-C", env.REPO, "status", "--porcelain", "--untracked-files=no"], capture_output=True, text=True)
        return r.stdout.strip() + ("+dirty" if d.stdout.strip() else "")
    except Exception:
        return "?"


def _work_dir(prop):
    base = os.path.join(env.VERIF, ".work")
    os.makedirs(base, exist_ok=True)
    return tempfile.mkdtemp(prefix=f"{prop}-", dir=base)


def run_shards(check_name, items, tier, shard_timeout, nshards=None, extra_env=None):
    """Fan items out to worker processes; returns (results, problems)."""
    nshards = max(1, min(nshards or NPROC, len(items)))
    # spread the cases pseudo-randomly (but deterministically) over the shards: index-periodic work
    # (every 8th case starts real processes, ...) must not pile up in one shard
    from vf.prng import mix

    items = sorted(items, key=lambda it: mix(json.dumps(it, sort_keys=True, default=str)))
    wd = _work_dir(check_name)
    procs = []
    try:
        for k in range(nshards):
            part = items[k::nshards]
            ip = os.path.join(wd, f"in{k}.json")
            op = os.path.join(wd, f"out{k}.json")
            with open(ip, "w", encoding="utf-8") as f:
                json.dump({"items": part, "tier": tier, "shard": k, "work": os.path.join(wd, f"w{k}")}, f)
            os.makedirs(os.path.join(wd, f"w{k}"), exist_ok=True)
            lp = open(os.path.join(wd, f"log{k}.txt"), "w")
            p = subprocess.Popen(
                [env.PY, "-X", "faulthandler", "-m", "vf.worker", check_name, ip, op],
                cwd=env.VERIF, env=env.child_env(extra_env), stdout=lp, stderr=subprocess.STDOUT, stdin=subprocess.DEVNULL,
            )
            procs.append((k, p, op, lp))
        results, problems = [], []
        deadline = time.time() + shard_timeout
        for k, p, op, lp in procs:
            try:
                rc = p.wait(timeout=max(1, deadline - time.time()))
            except subprocess.TimeoutExpired:
                p.kill()
                p.wait()
                problems.append(f"shard {k}: wall-clock watchdog after {shard_timeout}s")
                continue
            finally:
                lp.close()
            if rc != 0 or not os.path.exists(op):
                tail = open(os.path.join(wd, f"log{k}.txt"), errors="replace").read()[-1500:]
                problems.append(f"shard {k}: worker exit {rc}: {tail}")
                continue
            with open(op, encoding="utf-8") as f:
                results.append(json.load(f))
        return results, problems
    finally:
        for _, p, _, _ in procs:
            if p.poll() is None:
                p.kill()
        shutil.rmtree(wd, ignore_errors=True)


def merge(results):
    out = {"evals": 0, "viol": [], "counters": {}, "distinct": set(), "samples": [], "skipped": {}, "inconclusive": [], "observed": {}}
    for r in results:
        out["evals"] += r.get("evals", 0)
        out["viol"].extend(r.get("viol", []))
        for k, v in r.get("counters", {}).items():
            out["counters"][k] = out["counters"].get(k, 0) + v
        for k, v in r.get("skipped", {}).items():
            out["skipped"][k] = out["skipped"].get(k, 0) + v
        out["distinct"].update(r.get("distinct", []))
        for k, v in r.get("observed", {}).items():
            s = out["observed"].setdefault(k, set())
            s.update(v)
        if len(out["samples"]) < 12:
            out["samples"].extend(r.get("samples", [])[:2])
        out["inconclusive"].extend(r.get("inconclusive", []))
    return out


def shrink_doc(check_name, case, sig, detail, budget_s=20):
    """Best effort: a smaller document showing the same mechanisms (None if not applicable)."""
    if not isinstance(detail, dict) or not isinstance(detail.get("doc"), str) or len(detail["doc"]) < 12:
        return None
    wd = _work_dir(check_name + "-shrink")
    try:
        ip, op = os.path.join(wd, "in.json"), os.path.join(wd, "out.json")
        with open(ip, "w", encoding="utf-8") as f:
            json.dump({"doc": detail["doc"], "signature": sig, "case": case if str(case).startswith("Z") else None, "work": os.path.join(wd, "w"), "budget_s": budget_s}, f)
        os.makedirs(os.path.join(wd, "w"), exist_ok=True)
        try:
            subprocess.run([env.PY, "-m", "vf.shrink", check_name, ip, op], cwd=env.VERIF, env=env.child_env(), stdin=subprocess.DEVNULL,
                           stdout=subprocess.DEVNULL, stderr=subprocess.DEVNULL, timeout=budget_s + 30)
        except subprocess.TimeoutExpired:
            return None
        if os.path.exists(op):
            return json.load(open(op, encoding="utf-8")).get("shrunk")
        return None
    finally:
        shutil.rmtree(wd, ignore_errors=True)


def write_replay(prop, case, sig, detail):
    d = os.path.join(os.environ.get("VERIF_SCRATCH_OUT") or env.VERIF, "replays", prop)
    os.makedirs(d, exist_ok=True)
    h = hashlib.sha256(json.dumps([case, sig], sort_keys=True, default=str).encode()).hexdigest()[:12]
    p = os.path.join(d, h + ".json")
    with open(p, "w", encoding="utf-8") as f:
        json.dump({"property": prop, "case": case, "signature": sig, "detail": detail, "repo_rev": repo_rev()}, f, indent=1, default=str)
    return p


def main(check_name, tier, replay=None):
    t0 = time.time()
    env.setup_path()
    mod = importlib.import_module("vf.checks." + check_name.lower())
    prop = mod.PROPERTY
    seed = int(os.environ.get("VERIF_SEED", "0"))
    # VERIF_SCRATCH_OUT: evidence/replays of trial runs against a scratch worktree go elsewhere
    ev_path = os.path.join(os.environ.get("VERIF_SCRATCH_OUT") or env.VERIF, "evidence", prop + ".json")
    os.makedirs(os.path.dirname(ev_path), exist_ok=True)

    if replay:
        with open(replay, encoding="utf-8") as f:
            rp = json.load(f)
        items = [mod.replay_item(rp)]
        results, problems = run_shards(check_name, items, "replay", 1200, nshards=1)
        m = merge(results)
        for case, sig, detail in m["viol"]:
            print(f"REPRODUCED property={prop} case={case} signature={sig}")
            print(json.dumps(detail, indent=1, default=str)[:4000])
        if not m["viol"]:
            print("not reproduced", problems)
        return 1 if m["viol"] else 0

    baseline_mode = tier == "baseline"
    plan = mod.plan("thorough" if baseline_mode else tier, seed, complete=baseline_mode)
    items = list(plan["items"])
    # developer aid: VERIF_PARTIAL=<substring> with tier "baseline" re-runs only the universe documents that
    # contain the substring and patches their entries into the existing baseline (used after a repair in
    # /repo that can only affect such documents, e.g. 'pyml' for the pragma regeneration fixes)
    partial = os.environ.get("VERIF_PARTIAL") if baseline_mode else None
    if partial:
        from vf import universe as _U

        if partial.startswith("@"):  # @<prefix>: the cases of one check-local family
            items = [it for it in items if isinstance(it, str) and it.startswith(partial[1:])]
        else:
            items = [it for it in items if isinstance(it, str) and it[:1] == "Z" and partial in _U.case_doc(it)]
        print(f"partial baseline: {len(items)} cases selected by {partial!r}")
    canon = getattr(mod, "canon_signature", None)
    base = findings.load_baseline(mod.BASELINE, canon) if getattr(mod, "BASELINE", None) else None
    base_b = findings.load_baseline(mod.BASELINE + ".B", canon) if getattr(mod, "BASELINE", None) else None
    group = os.environ.get("VERIF_GROUP")
    known = findings.known_for(prop)
    inconclusive = []
    uh = mod.universe_hash() if hasattr(mod, "universe_hash") else None
    if base is not None and uh and base["universe_hash"] != uh and not baseline_mode:
        inconclusive.append(f"baseline {mod.BASELINE} was built for universe {base['universe_hash']}, current is {uh}")
    if base_b is not None and not baseline_mode:
        from vf import universe_b

        if base_b["universe_hash"] != universe_b.content_hash():
            inconclusive.append(f"baseline {mod.BASELINE}.B was built for universe {base_b['universe_hash']}, current is {universe_b.content_hash()}")
        if base is None:
            base = {"map": {}}
        base = dict(base)
        base["map"] = {**base["map"], **base_b["map"]}
    from vf.checks import parserlevel as _PL

    for g in ("C", "D", "E", "F", "G", "H"):
        base_g = findings.load_baseline(mod.BASELINE + "." + g, canon) if getattr(mod, "BASELINE", None) else None
        if base_g is not None and not baseline_mode:
            gh = _PL.GROUP_MODULES[g].content_hash()
            if base_g["universe_hash"] != gh:
                inconclusive.append(f"baseline {mod.BASELINE}.{g} was built for universe {base_g['universe_hash']}, current is {gh}")
            if base is None:
                base = {"map": {}}
            base = dict(base)
            base["map"] = {**base["map"], **base_g["map"]}

    # witnesses of listed findings are replayed first (same worker code path)
    witness_items = []
    if not baseline_mode:
        for k in known:
            try:
                witness_items.append(mod.witness_item(k))
            except Exception as e:  # noqa: BLE001  (a malformed entry must not take the check down)
                inconclusive.append(f"witness of listed finding {k.get('id')} cannot be replayed: {type(e).__name__}: {e}")
    timeout = plan.get("timeout", 900 if tier == "quick" else 6 * 3600)
    results, problems = run_shards(check_name, witness_items + items, tier, timeout, extra_env=plan.get("env"))
    inconclusive.extend(problems)
    m = merge(results)
    inconclusive.extend(m["inconclusive"])

    if baseline_mode:
        case_sig = {}
        for case, sig, detail in m["viol"]:
            case_sig[case] = sig
        if problems:
            print("INCONCLUSIVE baseline run:", problems)
            return 2
        bname = mod.BASELINE
        if group == "B":
            from vf import universe_b

            bname, uh = mod.BASELINE + ".B", universe_b.content_hash()
        if group in ("C", "D", "E", "F", "G", "H"):
            from vf.checks import parserlevel as _PL2

            bname, uh = mod.BASELINE + "." + group, _PL2.GROUP_MODULES[group].content_hash()
        if partial:
            old = findings.load_baseline(bname)
            merged = {k: v for k, v in old["map"].items() if k not in set(items)}
            merged.update(case_sig)
            meta = dict(old.get("meta") or {})
            meta["partial_rebuild"] = {"substring": partial, "documents": len(items), "repo_rev": repo_rev()}
            findings.save_baseline(bname, old["universe_hash"], old.get("repo_rev"), merged, meta=meta)
            print(f"partial baseline {bname}: {len(items)} documents re-run, {len(case_sig)} violating; baseline now has {len(merged)} violating cases")
            return 0
        findings.save_baseline(bname, uh, repo_rev(), case_sig, meta={"evals": m["evals"], "counters": m["counters"]})
        # propose known-finding entries: one per atomic mechanism, shortest witness
        by_atom = {}
        counts = {}
        for case, sig, detail in m["viol"]:
            size = len(json.dumps(detail, default=str))
            for a in findings.atoms(sig):
                counts[a] = counts.get(a, 0) + 1
                cur = by_atom.get(a)
                if cur is None or size < cur[0]:
                    by_atom[a] = (size, case, detail)
        prop_path = os.path.join(env.VERIF, "baseline", bname + ".proposed.json")
        with open(prop_path, "w", encoding="utf-8") as f:
            json.dump(
                {"property": prop, "counts": dict(sorted(counts.items(), key=lambda kv: -kv[1])),
                 "witness": {a: {"case": c, "detail": d} for a, (_, c, d) in sorted(by_atom.items())}},
                f, indent=1, default=str,
            )
        by_sig = by_atom
        print(f"baseline {mod.BASELINE}: {m['evals']} evaluations, {len(case_sig)} violating cases, {len(by_sig)} signatures; wall {time.time()-t0:.0f}s")
        print("counters", json.dumps(m["counters"], sort_keys=True))
        print("skipped", json.dumps(m["skipped"], sort_keys=True))
        return 0

    # classify
    base_map = base["map"] if base else None
    reproduced = set()
    new = []
    n_known = 0
    wit_keys = {k["id"] for k in known}
    known_by_id = {k["id"]: k for k in known}
    for case, sig, detail in m["viol"]:
        if isinstance(case, str) and case.startswith("W:"):
            fid = case[2:]
            k = known_by_id.get(fid)
            if k is None:
                continue
            if k.get("status", "known") == "fixed":
                if k["signature"] in findings.atoms(sig) or k.get("any_signature"):
                    new.append((case, sig, detail, "fixed-finding-returned"))
            elif k["signature"] in findings.atoms(sig) or k.get("any_signature"):
                reproduced.add(fid)
            # a witness that now violates only by other mechanisms is not an alarm by itself: the same
            # input is part of the frozen universe and is judged there against its baseline entry
            continue
        cls = findings.classify(base_map, case, sig)
        if cls == "known":
            n_known += 1
        else:
            new.append((case, sig, detail, cls))

    for fid in sorted(reproduced):
        k = known_by_id[fid]
        print(f"KNOWN-FINDING: property={prop} {fid}: {k['what_fails']}")

    # evidence
    distinct = len(m["distinct"])
    cov = {
        "evaluations": m["evals"],
        "distinct_nontrivial": distinct,
        "rule": plan["rule"],
        "samples": m["samples"][:10],
        "exhaustive": bool(plan.get("exhaustive", False)),
        "monitor_evaluations": m["counters"],
        "skipped": m["skipped"],
        "observed": {k: sorted(v)[:80] for k, v in m["observed"].items()},
        "observed_counts": {k: len(v) for k, v in m["observed"].items()},
        "zones": plan.get("zones", {}),
        "violations_on_baseline_inputs_known": n_known,
        "known_findings_listed": len([k for k in known if k.get("status", "known") == "known"]),
        "known_findings_reproduced": len(reproduced),
        "new_violations": len(new),
        "inconclusive": inconclusive[:20],
        "repo_rev": repo_rev(),
    }
    ev = {
        "property_id": prop,
        "tier": "thorough" if tier == "thorough" else "quick",
        "seed": seed,
        "level": mod.LEVEL,
        "coverage": cov,
        "assumptions": getattr(mod, "ASSUMPTIONS", []),
        "wall_s": round(time.time() - t0, 2),
        "violations": len(new),
    }
    with open(ev_path, "w", encoding="utf-8") as f:
        json.dump(ev, f, indent=1, default=str)

    req = getattr(mod, "REQUIRED_COUNTERS", [])
    for c in req:
        if m["counters"].get(c, 0) == 0:
            inconclusive.append(f"monitor counter {c} is zero: the deciding monitor was never reached")

    print(
        f"{prop} {tier} seed={seed}: evaluations={m['evals']} distinct_nontrivial={distinct} "
        f"known-baseline-hits={n_known} new={len(new)} wall={time.time()-t0:.1f}s counters={json.dumps(m['counters'], sort_keys=True)}"
    )
    if new:
        shown = 0
        seen_sig = set()
        for case, sig, detail, cls in sorted(new, key=lambda x: (str(x[1]), len(json.dumps(x[2], default=str)))):
            if sig in seen_sig and shown >= 5:
                continue
            seen_sig.add(sig)
            if shown < 25:
                if shown < 4 and getattr(mod, "SHRINKABLE", False):
                    sd = shrink_doc(check_name, case, sig, detail)
                    if sd is not None and isinstance(detail, dict):
                        detail = dict(detail)
                        detail["shrunk_doc"] = sd
                p = write_replay(prop, case, sig, detail)
                print(f"VIOLATION property={prop} replay={p}  [{cls}] case={case} signature={sig}")
                shown += 1
        print(f"{len(new)} unlisted violation(s), {len({s for _, s, _, _ in new})} distinct signature(s)")
        return 1
    if inconclusive:
        print("INCONCLUSIVE:", "; ".join(str(x)[:300] for x in inconclusive[:5]))
        return 2
    return 0


def _count_sigs(viol):
    c = {}
    for _, sig, _ in viol:
        c[sig] = c.get(sig, 0) + 1
    return dict(sorted(c.items(), key=lambda kv: -kv[1]))
