"""Frozen document universes.  U(zone, i) -> document; `i` alone decides what the case is.

VERIF_SEED never changes what a case is, only which indices are run.  Any edit of this file (or
of the corpus) changes `content_hash()`; baseline maps carry that hash and a mismatch makes a
check INCONCLUSIVE instead of held.
"""
import hashlib
import json
import os

from vf.prng import R

_HERE = os.path.dirname(os.path.abspath(__file__))
_CORPUS_PATH = os.path.join(os.path.dirname(_HERE), "corpus", "repo_test_corpus.jsonl")
_corpus = None


def corpus():
    global _corpus
    if _corpus is None:
        with open(_CORPUS_PATH, encoding="utf-8") as f:
            _corpus = [json.loads(line)["src"] for line in f]
    return _corpus


def content_hash():
    h = hashlib.sha256()
    for p in (os.path.abspath(__file__), _CORPUS_PATH, os.path.join(_HERE, "prng.py")):
        with open(p, "rb") as f:
            h.update(f.read())
    return h.hexdigest()[:16]


# ------------------------------------------------------------------ Z1: the repository's own documents
Z1_VARIANTS = 6  # 0 as-is, 1 final newline toggled, 2 quoted, 3 list item, 4 two docs joined, 5 ordered item


def z1(i):
    c = corpus()
    n = len(c)
    d, v = i % n, i // n
    s = c[d]
    if v == 0:
        return s
    if v == 1:
        return s[:-1] if s.endswith("\n") else s + "\n"
    if v == 2:
        return "\n".join((">" if ln == "" else "> " + ln) for ln in s.split("\n")) if s else ">"
    if v == 3 or v == 5:
        mk = "- " if v == 3 else "1. "
        ls = s.split("\n")
        out = [mk + ls[0]] + [(" " * len(mk) + ln if ln else "") for ln in ls[1:]]
        return "\n".join(out)
    if v == 4:
        o = c[(d * 7 + 3) % n]
        a = s if s.endswith("\n") else s + "\n"
        return a + "\n" + o
    raise IndexError(i)


def z1_size():
    return len(corpus()) * Z1_VARIANTS


# ------------------------------------------------------------------ Z2: tiny exhaustive
# one-line documents of <= 3 fragments over F1; two-line documents of <= 2 fragments per line over F2
F1 = [
    "", " ", "  ", "   ", "    ", "\t", ">", "> ", ">>", "- ", "* ", "+ ", "1. ", "1) ", "10. ", "-\t", "-", "1.",
    "#", "# ", "## ", "#\t", "```", "~~~", "---", "***", "___", "===", "=", "<div>", "<!--", "-->", "</div>", "<?",
    "[a]: /u", "[a]:", "[a]", "[", "]", "(", ")", "(/u)", "!", "*", "**", "_", "__", "`", "``", "<", ">x", "&", "&amp;",
    "&#35;", "\\", "\\*", "a", "b c", "ü", "<http://x.y>", "<b>", "  \\", "|",
]
F2 = [
    "", " ", "    ", "\t", "> ", ">", "- ", "* ", "1. ", "1) ", "# ", "```", "---", "===", "<div>", "[a]: /u", "[a]",
    "(/u)", "*", "_", "`", "<", "&amp;", "\\", "a", "b c", "  ", "[", "]", "!",
]


def _seq_count(n, k):
    return sum(n**j for j in range(1, k + 1))


_Z2A = _seq_count(len(F1), 3)
_Z2L = _seq_count(len(F2), 2)
_Z2B = _Z2L * _Z2L


def _seq(table, k, i):
    """i-th sequence of 1..k fragments (shorter sequences first)."""
    n = len(table)
    for ln in range(1, k + 1):
        c = n**ln
        if i < c:
            out = []
            for _ in range(ln):
                out.append(table[i % n])
                i //= n
            return "".join(out)
        i -= c
    raise IndexError


def z2(i):
    nl, j = i & 1, i >> 1
    if j < _Z2A:
        s = _seq(F1, 3, j)
    else:
        j -= _Z2A
        s = _seq(F2, 2, j % _Z2L) + "\n" + _seq(F2, 2, j // _Z2L)
    return s + ("\n" if nl else "")


def z2_size():
    return 2 * (_Z2A + _Z2B)


# ------------------------------------------------------------------ Z3: calm block trees
WORDS = ["alpha", "beta", "gamma", "delta", "x", "y", "lorem", "ipsum", "café", "Zed"]


def _inline(r, depth=0):
    k = r.random()
    w = lambda: r.choice(WORDS)  # noqa: E731
    if depth > 1 or k < 0.42:
        return w()
    if k < 0.49:
        return "*" + _inline(r, depth + 1) + "*"
    if k < 0.55:
        return "**" + _inline(r, depth + 1) + "**"
    if k < 0.59:
        return "_" + w() + "_"
    if k < 0.65:
        return "`" + w() + "`"
    if k < 0.71:
        return "[" + _inline(r, depth + 1) + "](/" + w() + ")"
    if k < 0.74:
        return "[" + w() + '](/u "' + w() + '")'
    if k < 0.77:
        return "![" + w() + "](/" + w() + ".png)"
    if k < 0.80:
        return "<http://" + w() + ".com>"
    if k < 0.83:
        return "[" + r.choice(["ref", "foo"]) + "]"
    if k < 0.845:
        return "[" + w() + "][" + r.choice(["ref", "foo"]) + "]"
    if k < 0.86:
        return "&amp;"
    if k < 0.875:
        return "\\*"
    if k < 0.89:
        return r.choice(["<b>", "<span class=\"c\">", "</b>"])
    if k < 0.91:
        return w() + "*" + w()
    if k < 0.925:
        return "*" + w()
    if k < 0.94:
        return w() + "_"
    if k < 0.95:
        return "``" + w() + " ` " + w() + "``"
    if k < 0.96:
        return "&#35;" + w()
    if k < 0.97:
        return r.choice(["~~" + w() + "~~", "www." + w() + ".com", "http://" + w() + ".org/p", "<title>"])
    if k < 0.98:
        return "__" + w() + "__"
    return w() + "."


def _text(r, n=None):
    n = n or r.randint(1, 4)
    return " ".join(_inline(r) for _ in range(n))


def _leaf(r, cfg):
    k = r.random()
    if k < 0.38:
        ls = [_text(r) for _ in range(r.choice([1, 1, 2, 3]))]
        if len(ls) > 1 and r.chance(0.25):
            ls[0] += r.choice(["  ", "\\"])
        return ls
    if k < 0.50:
        return ["#" * r.randint(1, 6) + " " + _text(r, 2) + r.choice(["", "", "", " #", " ##"])]
    if k < 0.56:
        return [_text(r, 2), r.choice(["===", "---", "=", "--------"])]
    if k < 0.62:
        return [r.choice(["---", "***", "___", "- - -", "* * *"])]
    if k < 0.72:
        f = r.choice(["```", "~~~", "````"])
        info = r.choice(["", "", "py", "text"])
        body = [
            r.choice(["code", "  indented", "", "x = 1", "# not heading", "- not list", "> nq", "<b>&amp;"])
            for _ in range(r.randint(0, 3))
        ]
        return [f + info] + body + [f]
    if k < 0.78:
        return ["    " + r.choice(["code", "x = 1", "# c", "<i>"])] + (["    more"] if r.chance(0.4) else [])
    if k < 0.84:
        return [r.choice(["<div>", "<!-- comment -->", "<p>html</p>", "<script>", "<?php x ?>", "<pre>"])] + (
            [_text(r, 1)] if r.chance(0.5) else []
        )
    if k < 0.90 and cfg.get("lrd", True):
        return ["[" + r.choice(["ref", "foo"]) + "]: /url" + r.choice(["", " 'title'", ' "t"'])]
    if k < 0.93 and cfg.get("task", True):
        return ["[ ] " + _text(r, 1)]
    return [_text(r)]


def _blocks(r, depth, cfg):
    out = []
    n = r.randint(1, 3 if depth else 4)
    for _ in range(n):
        k = r.random()
        if depth < cfg["maxdepth"] and k < 0.18:
            b = _quote(r, depth, cfg)
        elif depth < cfg["maxdepth"] and k < 0.40:
            b = _list(r, depth, cfg)
        else:
            b = _leaf(r, cfg)
        if out:
            sep = r.random()
            if sep < cfg.get("blank", 0.8):
                out.append("")
            if sep < 0.05:
                out.append("")
        out.extend(b)
    return out


def _quote(r, depth, cfg):
    inner = _blocks(r, depth + 1, cfg)
    pre = r.choice(["> ", "> ", "> ", ">"])
    lazy = cfg.get("lazy", 0.0)
    out = []
    prev_para = False
    for ln in inner:
        if ln == "":
            out.append(r.choice([">", ">", "> "]))
            prev_para = False
            continue
        is_plain = ln[0].isalpha()
        if prev_para and is_plain and r.chance(lazy):
            out.append(ln)
        else:
            out.append(pre + ln)
        prev_para = is_plain
    return out


def _list(r, depth, cfg):
    ordered = r.chance(0.4)
    mk = r.choice(["-", "*", "+"])
    start = r.choice([1, 1, 1, 2, 10])
    delim = r.choice([".", ")"])
    pad = r.choice([1, 1, 1, 2, 3]) if cfg.get("pad", True) else 1
    lazy = cfg.get("lazy", 0.0)
    out = []
    for i in range(r.randint(1, 3)):
        m = (str(start + i) + delim) if ordered else mk
        ind = len(m) + pad
        inner = _blocks(r, depth + 1, cfg)
        first = True
        prev_para = False
        for ln in inner:
            if first:
                out.append(m + " " * pad + ln if ln else m)
                first = False
                prev_para = bool(ln) and ln[0].isalpha()
            elif ln == "":
                out.append("")
                prev_para = False
            else:
                is_plain = ln[0].isalpha()
                if prev_para and is_plain and r.chance(lazy):
                    out.append(ln)
                else:
                    out.append(" " * ind + ln)
                prev_para = is_plain
        if r.chance(cfg.get("loose", 0.3)):
            out.append("")
    while out and out[-1] == "":
        out.pop()
    return out


LONG = "lorem ipsum dolor sit amet consectetur adipiscing elit sed do eiusmod tempor incididunt ut labore magna"


def _spray(r, lines):
    """Sprinkle constructs that line/whitespace rules react to (never changes block kinds on purpose)."""
    out = []
    for ln in lines:
        k = r.random()
        if k < 0.10 and ln and not ln.endswith("\\"):
            ln = ln + " " * r.choice([1, 2, 3, 4])
        elif k < 0.16 and ln and ln[0].isalpha():
            ln = ln + " " + LONG[: r.randint(40, 100)]
        elif k < 0.20 and ln and ln[0].isalpha():
            ln = ln.replace(" ", "\t", 1)
        elif k < 0.24 and ln == "":
            out.append("")
        elif k < 0.27 and ln.startswith("# "):
            ln = "#  " + ln[2:]
        elif k < 0.29 and ln.startswith("#"):
            ln = " " + ln
        out.append(ln)
    return out


def _tree_doc(r, cfg):
    ls = _blocks(r, 0, cfg)
    if cfg.get("spray"):
        ls = _spray(r, ls)
    s = "\n".join(ls)
    if r.chance(0.85):
        s += "\n"
    return s


Z3_SIZE = 240000


def z3(i):
    r = R(0x3000000 + i)
    m = i % 8
    cfg = dict(maxdepth=2, lrd=True, lazy=0.0)
    if m == 1:
        cfg["lazy"] = 0.5
    elif m == 2:
        cfg["maxdepth"] = 3
    elif m == 3 or m == 7:
        cfg["spray"] = True
    elif m == 4:
        cfg["blank"] = 0.4
    elif m == 5:
        cfg["maxdepth"] = 1
        cfg["loose"] = 0.6
    return _tree_doc(r, cfg)


# ------------------------------------------------------------------ Z4: hostile
PRE = [
    "", "", "", " ", "  ", "   ", "    ", "     ", "\t", "> ", ">", ">> ", "> > ", "- ", "* ", "+ ", "1. ", "1) ",
    "10. ", "-\t", "   - ", "  > ", "    - ", "  1. ", "- - ", "> - ", "- > ", "1. > ", "> 1. ", "-   ", "  ",
]
HLEAF = [
    "# h", "## h", "#", "# h #", "```", "~~~", "```py", "---", "***", "===", "- - -", "___", "    code", "<div>",
    "</div>", "<!-- c -->", "<?php", "[a]: /u", "[a]: /u 't'", "[a]:", "/u", '"t"', "", "", "a", "a b", "text",
]
HINL = [
    "*a*", "**a**", "_a_", "__a__", "`c`", "``c``", "[b](/u)", "[b][a]", "[a]", "![i](/u)", "<http://x.y>", "<a@b.c>",
    "<b>", "&amp;", "&#35;", "\\*", "a\\", "a  ", "*", "_", "`", "[", "]", "![", "(", ")", "<", "&", "a*b", "**a", "a**",
    '[b](/u "t")', "[b]( /u )", "*a **b** c*", "<!-- x -->", "a\tb", "ü", " ", "a", "b", "word",
]
MARKERS = ["\u00fe", "\u8268", "\u8269", "\a", "\b", "\x02", "\x03", "\x05"]


def _soup(r):
    n = r.randint(1, 6)
    L = []
    for _ in range(n):
        k = r.random()
        if k < 0.12:
            L.append(r.choice(["", "", " ", "  ", ">", "> ", "\t"]))
            continue
        p = "".join(r.choice(PRE) for _ in range(r.choice([0, 1, 1, 1, 2, 2, 3])))
        if r.chance(0.5):
            b = r.choice(HLEAF)
        else:
            b = " ".join(r.choice(HINL) for _ in range(r.randint(1, 3)))
        L.append(p + b)
    s = "\n".join(L)
    if r.chance(0.7):
        s += "\n"
    return s


def _mangle(r, s):
    """Take a calm tree and damage its indentation."""
    out = []
    for ln in s.split("\n"):
        k = r.random()
        if k < 0.10 and ln.startswith(" "):
            ln = ln[1:]
        elif k < 0.20 and ln:
            ln = " " * r.randint(1, 3) + ln
        elif k < 0.25 and ln.startswith("  "):
            ln = "\t" + ln[2:]
        elif k < 0.30 and ln.startswith("> "):
            ln = ">" + ln[2:]
        elif k < 0.34 and ln[:2] in ("- ", "* ", "+ "):
            ln = ln[0] + "\t" + ln[2:]
        elif k < 0.37:
            ln = ln.lstrip(" ")
        out.append(ln)
    return "\n".join(out)


Z4_SIZE = 240000


def z4(i):
    r = R(0x4000000 + i)
    m = i % 4
    if m == 0 or m == 1:
        s = _soup(r)
    elif m == 2:
        s = _mangle(r, _tree_doc(r, dict(maxdepth=4, lrd=True, lazy=0.3)))
    else:
        s = _mangle(r, _tree_doc(r, dict(maxdepth=3, lrd=True, lazy=0.5, blank=0.5)))
    if i % 97 == 0:
        # in-band marker code points somewhere in the text
        pos = r.below(len(s) + 1)
        s = s[:pos] + r.choice(MARKERS) + s[pos:]
    return s


# ------------------------------------------------------------------ registry
ZONES = {
    "Z1": (z1, z1_size),
    "Z2": (z2, z2_size),
    "Z3": (z3, lambda: Z3_SIZE),
    "Z4": (z4, lambda: Z4_SIZE),
}


def doc(zone, i):
    return ZONES[zone][0](i)


def size(zone):
    return ZONES[zone][1]()


def case_doc(key):
    z, i = key.split(":")
    return doc(z, int(i))


def pick(zone, seed, k, lo=0, hi=None):
    """k seed-chosen indices of zone[lo:hi)."""
    hi = size(zone) if hi is None else min(hi, size(zone))
    from vf.prng import mix

    return [lo + j for j in R(mix(zone, seed)).sample(hi - lo, k)]
