"""Worker process: imports the tree under test once and drives many executions in-process."""
import importlib
import json
import sys


def main():
    # safety net: a runaway allocation must kill this shard (-> INCONCLUSIVE), not the machine
    import resource

    resource.setrlimit(resource.RLIMIT_AS, (12 * 2**30, 12 * 2**30))
    check, ip, op = sys.argv[1:4]
    with open(ip, encoding="utf-8") as f:
        job = json.load(f)
    mod = importlib.import_module("vf.checks." + check.lower())
    res = mod.run_items(job["items"], job)
    with open(op, "w", encoding="utf-8") as f:
        json.dump(res, f, default=lambda o: sorted(o) if isinstance(o, (set, frozenset)) else str(o))


if __name__ == "__main__":
    main()
