"""C05 — token positions are true.

Oracle (vf/monitors.py::c05): line exists, column within the tab-expanded line (+1), block tokens
in non-decreasing line order, and the source text at the position is the element's own opening text.
"""
from vf import universe as U
from vf import monitors
from vf.checks import _tok
from vf.checks import parserlevel as PL

PROPERTY = "C05"
LEVEL = "exploration"
SHRINKABLE = True  # violating documents are minimised (ddmin) before the replay file is written
BASELINE = "C05"
REQUIRED_COUNTERS = ["parsed", "positions_checked"]
ASSUMPTIONS = [
    "columns are judged in tab-expanded coordinates (the code base's documented convention)",
    "text tokens are judged by range clauses only; html-block position = column of its indentation (convention)",
]


def universe_hash():
    return U.content_hash()


def plan(tier, seed, complete=False):
    items, zinfo = PL.plan_docs(tier, seed, complete, check="C05", fx=700)
    return {
        "items": items, "zones": zinfo, "exhaustive": False,
        "rule": "documents of the frozen universes; position oracle over every position-carrying token; distinct = distinct token-kind sequences",
    }


witness_item = PL.witness_item
replay_item = PL.replay_item


def _mon(R, pm, key, doc, toks):
    v, n = monitors.c05(doc, toks)
    R.count("positions_checked", n)
    if v:
        R.viol.append([key, ";".join(v), {"doc": doc, "tokens": [str(t) for t in toks][:60]}])
    elif len(R.samples) < 2:
        R.samples.append({"case": key, "doc": doc[:200], "positions": [(t.token_name, t.line_number, t.column_number) for t in toks if t.line_number][:30]})


def run_items(items, job):
    return _tok.drive(items, None, _mon, job=job)
