"""C18 — exit codes follow the documented table in both schemes.

Table (user-guide.md, transcribed): SUCCESS 0/0, NO_FILES_TO_SCAN 1/0, COMMAND_LINE_ERROR 2/2,
FIXED_AT_LEAST_ONE_FILE 3/0, SCAN_TRIGGERED_AT_LEAST_ONCE 1/0, SYSTEM_ERROR 1/1 (default/minimal).
Scenarios: every way the application can reach each category (see SCENARIOS) x scheme {default,
minimal} x scheme chosen by {argument, --set, configuration file}.  Observed: SystemExit.code of the
real PyMarkdownLint.main, the ApplicationResult handed to ReturnCodeHelper.exit_application (hook), and
for one representative per category the exit status of a real `python -m pymarkdown` process.
"""
import itertools
import json
import os

from vf import universe as U
from vf.checks import parserlevel as PL

PROPERTY = "C18"
LEVEL = "exploration"
BASELINE = "C18"
REQUIRED_COUNTERS = ["invocations", "exit_category_hook_calls", "subprocess_runs"]
ASSUMPTIONS = ["scenario -> category expectations are transcribed from the user guide's category descriptions"]

TABLE = {
    "SUCCESS": (0, 0), "NO_FILES_TO_SCAN": (1, 0), "COMMAND_LINE_ERROR": (2, 2), "FIXED_AT_LEAST_ONE_FILE": (3, 0),
    "SCAN_TRIGGERED_AT_LEAST_ONCE": (1, 0), "SYSTEM_ERROR": (1, 1),
}
CLEAN = "# Title\n\nSome text.\n"
FIXABLE = "#  Title\n\nSome text.\n"
FAILING = "# A\n# B\n"          # MD022/MD025: reported, not fixable
BAD = b"\xff\xfe not utf-8 \x80\n"

FILES = {"clean.md": CLEAN, "fixable.md": FIXABLE, "failing.md": FAILING, "notes.txt": "not markdown\n"}


def _mix_scenarios():
    out = []
    docs = {"c": ("clean", CLEAN), "f": ("failing", FAILING), "x": ("fixable", FIXABLE), "u": ("undecodable", None)}
    for combo in ("cfu", "cxu", "fxu", "cfx", "ccf", "ccu", "xxf"):
        for perm in sorted(set(itertools.permutations(combo))):
            for mode in ("scan", "fix"):
                for coe in (False, True):
                    kinds = [docs[k][0] for k in perm]
                    if "undecodable" in kinds:
                        want = "SYSTEM_ERROR"
                    elif mode == "fix":
                        want = "FIXED_AT_LEAST_ONE_FILE" if "fixable" in kinds else None
                    else:
                        want = "SCAN_TRIGGERED_AT_LEAST_ONCE" if ("failing" in kinds or "fixable" in kinds) else "SUCCESS"
                    if want is None:
                        continue
                    out.append((f"mix:{mode}:{'coe' if coe else 'stop'}:{'-'.join(kinds)}", {"mix": "".join(perm)}, (["--continue-on-error"] if coe else []) + [mode, "m1.md", "m2.md", "m3.md"], want))
    return out


SCENARIOS = [
    # name, setup, args, expected category
    ("scan-clean", {}, ["scan", "clean.md"], "SUCCESS"),
    ("scan-stdin-clean", {"stdin": CLEAN}, ["scan-stdin"], "SUCCESS"),
    ("fix-clean", {}, ["fix", "clean.md"], "SUCCESS"),
    ("list-files", {}, ["scan", "-l", "clean.md"], "SUCCESS"),
    ("list-files-dir", {}, ["scan", "-l", "."], "SUCCESS"),
    ("version", {}, ["version"], "SUCCESS"),
    ("plugins-list", {}, ["plugins", "list"], "SUCCESS"),
    ("plugins-list-filter", {}, ["plugins", "list", "md00?"], "SUCCESS"),
    ("plugins-info", {}, ["plugins", "info", "md001"], "SUCCESS"),
    ("plugins-info-by-name", {}, ["plugins", "info", "line-length"], "SUCCESS"),
    ("extensions-list", {}, ["extensions", "list"], "SUCCESS"),
    ("extensions-info", {}, ["extensions", "info", "front-matter"], "SUCCESS"),
    ("scan-dir-clean", {"only": ["clean.md"]}, ["scan", "."], "SUCCESS"),
    ("scan-failing", {}, ["scan", "failing.md"], "SCAN_TRIGGERED_AT_LEAST_ONCE"),
    ("scan-fixable", {}, ["scan", "fixable.md"], "SCAN_TRIGGERED_AT_LEAST_ONCE"),
    ("scan-stdin-failing", {"stdin": FAILING}, ["scan-stdin"], "SCAN_TRIGGERED_AT_LEAST_ONCE"),
    ("scan-two-one-failing", {}, ["scan", "clean.md", "failing.md"], "SCAN_TRIGGERED_AT_LEAST_ONCE"),
    ("scan-dir-failing", {}, ["scan", "."], "SCAN_TRIGGERED_AT_LEAST_ONCE"),
    ("scan-glob-failing", {}, ["scan", "f*.md"], "SCAN_TRIGGERED_AT_LEAST_ONCE"),
    ("fix-fixable", {}, ["fix", "fixable.md"], "FIXED_AT_LEAST_ONE_FILE"),
    ("fix-two-one-fixable", {}, ["fix", "clean.md", "fixable.md"], "FIXED_AT_LEAST_ONE_FILE"),
    ("fix-dir", {}, ["fix", "."], "FIXED_AT_LEAST_ONE_FILE"),
    ("scan-missing-path", {}, ["scan", "nothere.md"], "NO_FILES_TO_SCAN"),
    ("scan-ineligible-file", {}, ["scan", "notes.txt"], "NO_FILES_TO_SCAN"),
    ("scan-glob-no-match", {}, ["scan", "zzz*.md"], "NO_FILES_TO_SCAN"),
    ("list-missing-path", {}, ["scan", "-l", "nothere.md"], "NO_FILES_TO_SCAN"),
    ("fix-missing-path", {}, ["fix", "nothere.md"], "NO_FILES_TO_SCAN"),
    ("scan-dir-without-markdown", {"only": ["notes.txt"]}, ["scan", "."], "NO_FILES_TO_SCAN"),
    ("scan-glob-only-ineligible", {}, ["scan", "*.txt"], "NO_FILES_TO_SCAN"),
    ("list-dir-without-markdown", {"only": ["notes.txt"]}, ["scan", "-l", "."], "NO_FILES_TO_SCAN"),
    ("scan-one-ok-one-missing", {}, ["scan", "clean.md", "nothere.md"], "NO_FILES_TO_SCAN"),
    ("no-subcommand", {}, [], "COMMAND_LINE_ERROR"),
    ("bad-option", {}, ["--no-such-option", "scan", "clean.md"], "COMMAND_LINE_ERROR"),
    ("bad-subcommand", {}, ["frobnicate"], "COMMAND_LINE_ERROR"),
    ("scan-without-path", {}, ["scan"], "COMMAND_LINE_ERROR"),
    ("fix-without-path", {}, ["fix"], "COMMAND_LINE_ERROR"),
    ("plugins-without-subcommand", {}, ["plugins"], "COMMAND_LINE_ERROR"),
    ("plugins-info-bad-id", {}, ["plugins", "info", "!!"], "COMMAND_LINE_ERROR"),
    ("extensions-without-subcommand", {}, ["extensions"], "COMMAND_LINE_ERROR"),
    ("bad-log-level", {}, ["--log-level", "LOUD", "scan", "clean.md"], "COMMAND_LINE_ERROR"),
    ("bad-alternate-extension", {}, ["scan", "-ae", "md", "clean.md"], "COMMAND_LINE_ERROR"),
    ("bad-config-path", {}, ["--config", "nothere.json", "scan", "clean.md"], "SYSTEM_ERROR"),
    ("bad-config-content", {"extra": {"bad.json": "{ not json"}}, ["--config", "bad.json", "scan", "clean.md"], "SYSTEM_ERROR"),
    ("strict-config-error", {}, ["--strict-config", "--set", "plugins.md013.line_length=notanumber", "scan", "clean.md"], "SYSTEM_ERROR"),
    ("bad-plugin-path", {}, ["--add-plugin", "nothere.py", "scan", "clean.md"], "SYSTEM_ERROR"),
    ("bad-plugin-file", {"extra": {"broken_plugin.py": "raise RuntimeError('boom')\n"}}, ["--add-plugin", "broken_plugin.py", "scan", "clean.md"], "SYSTEM_ERROR"),
    ("plugin-fault-scan", {"fault": 3}, ["scan", "clean.md"], "SYSTEM_ERROR"),
    ("plugin-fault-scan-coe", {"fault": 3}, ["--continue-on-error", "scan", "clean.md", "failing.md"], "SYSTEM_ERROR"),
    ("plugin-fault-fix", {"fault": 3, "fixrec": True}, ["fix", "fixable.md"], "SYSTEM_ERROR"),
    ("plugin-fault-fix-coe-later-file-fixed", {"fault": 3, "fixrec": True}, ["--continue-on-error", "fix", "clean.md", "fixable.md"], "SYSTEM_ERROR"),
    ("parser-fault-scan", {"parser_fault": 1}, ["scan", "clean.md"], "SYSTEM_ERROR"),
    ("parser-fault-scan-coe", {"parser_fault": 1}, ["--continue-on-error", "scan", "clean.md", "failing.md"], "SYSTEM_ERROR"),
    ("parser-fault-fix-coe", {"parser_fault": 2}, ["--continue-on-error", "fix", "clean.md", "fixable.md"], "SYSTEM_ERROR"),
    ("undecodable-scan", {"bad": ["bad.md"]}, ["scan", "bad.md"], "SYSTEM_ERROR"),
    ("undecodable-fix", {"bad": ["bad.md"]}, ["fix", "bad.md"], "SYSTEM_ERROR"),
    # the documentation does not say which category a failed lookup belongs to: only table consistency is judged
    ("plugins-info-unknown-id", {}, ["plugins", "info", "md998"], None),
    ("extensions-info-unknown-id", {}, ["extensions", "info", "no-such-extension"], None),
] + _mix_scenarios()

SCHEME_VIA = ("arg", "set", "config-file", "none", "arg-over-config", "arg-over-set", "set-over-config", "config-over-default-file")


def universe_hash():
    return U.content_hash()


def all_cases():
    out = []
    for si in range(len(SCENARIOS)):
        for scheme in ("default", "minimal"):
            for via in SCHEME_VIA:
                if via == "none" and scheme == "minimal":
                    continue
                out.append((si, scheme, via))
    return out


def plan(tier, seed, complete=False):
    cs = all_cases()
    if complete or tier == "thorough":
        idx = list(range(len(cs)))
    else:
        # the table is small: quick runs every scenario with a seed-chosen (scheme, selection) pair, thorough runs all
        from vf.prng import R, mix

        r = R(mix("C18", seed))
        by_s = {}
        for i, c in enumerate(cs):
            by_s.setdefault(c[0], []).append(i)
        idx = []
        for si, lst in by_s.items():
            idx.append(lst[r.below(len(lst))])
            idx.append(lst[r.below(len(lst))])
        idx = sorted(set(idx))
    return {
        "items": [f"X:{i}" for i in idx] + ["SUB:0"],
        "zones": {"scenario x scheme x selection": {"universe": len(cs), "run": len(idx)}, "scenarios": {"count": len(SCENARIOS)}},
        "exhaustive": bool(complete or tier == "thorough"),
        "rule": "scenario table (every way to reach each outcome category, incl. 3-file mixtures in each order, scan/fix, with/without --continue-on-error) x scheme "
        "{default, minimal} x scheme chosen by {argument, --set, configuration file, not at all, and four pairs of sources that disagree}; distinct = distinct (scenario, scheme)",
    }


def witness_item(k):
    return {"key": "W:" + k["id"], "case": k["witness"]["case"]}


def replay_item(rp):
    return {"key": str(rp["case"]), "case": rp["detail"]["case"]}


_CAT = []
_hooked = False


def _hook():
    global _hooked
    if _hooked:
        return
    _hooked = True
    from pymarkdown import return_code_helper as rch

    orig = rch.ReturnCodeHelper.exit_application

    def exit_application(application_result):
        _CAT.append(application_result.name)
        return orig(application_result)

    rch.ReturnCodeHelper.exit_application = staticmethod(exit_application)


def setup(sb, st):
    sb.clear_files()
    only = st.get("only")
    for n, d in FILES.items():
        if only is None or n in only:
            sb.write(n, d)
    for n, d in st.get("extra", {}).items():
        sb.write(n, d)
    for n in st.get("bad", []):
        sb.write_bytes(n, BAD)
    if "mix" in st:
        for n in list(FILES):
            os.remove(os.path.join(sb.cwd, n))
        for j, k in enumerate(st["mix"]):
            n = f"m{j + 1}.md"
            if k == "u":
                sb.write_bytes(n, BAD)
            else:
                sb.write(n, {"c": CLEAN, "f": FAILING, "x": FIXABLE}[k])


def scheme_args(sb, scheme, via):
    if via == "arg":
        return ["--return-code-scheme", scheme]
    if via == "set":
        return ["--set", f"mode.return_code_scheme={scheme}"]
    if via == "config-file":
        sb.write("scheme.json", json.dumps({"mode": {"return_code_scheme": scheme}}))
        return ["--config", "scheme.json"]
    # two sources that disagree: the more specific one (documented order: argument, --set, --config file,
    # default configuration file) decides
    other = "minimal" if scheme == "default" else "default"
    if via == "arg-over-config":
        sb.write("scheme.json", json.dumps({"mode": {"return_code_scheme": other}}))
        return ["--return-code-scheme", scheme, "--config", "scheme.json"]
    if via == "arg-over-set":
        return ["--set", f"mode.return_code_scheme={other}", "--return-code-scheme", scheme]
    if via == "set-over-config":
        sb.write("scheme.json", json.dumps({"mode": {"return_code_scheme": other}}))
        return ["--config", "scheme.json", "--set", f"mode.return_code_scheme={scheme}"]
    if via == "config-over-default-file":
        sb.write(".pymarkdown", json.dumps({"mode": {"return_code_scheme": other}}))
        sb.write("scheme.json", json.dumps({"mode": {"return_code_scheme": scheme}}))
        return ["--config", "scheme.json"]
    return []


def run_items(items, job):
    from vf import app, reclog
    from vf.checks import c15

    reclog.install_wrappers()
    c15._install_parser_failpoint()
    _hook()
    sb = app.Sandbox(job["work"])
    R = PL.Result()
    cs = all_cases()
    for it in items:
        if isinstance(it, dict):
            key, spec = it["key"], it["case"]
        else:
            key, spec = it, it
        if spec.startswith("SUB:"):
            _subprocess_representatives(sb, app, R)
            continue
        ci = int(spec.split(":")[1])
        si, scheme, via = cs[ci]
        name, st, args, want = SCENARIOS[si]
        R.evals += 1
        setup(sb, st)
        pre = ["--log-level", "CRITICAL"] + scheme_args(sb, scheme, via)
        spec_r = {"first": {"enabled": False}, "last": {"enabled": False}, "off": {"enabled": False}}
        fault = None
        if "fault" in st:
            spec_r["last"] = {"enabled": True, "fix": bool(st.get("fixrec")), "level": 0, "callbacks": "STLC"}
            fault = {"role": "last", "at": st["fault"]}
            pre += ["--add-plugin", reclog.plugin_path("last")]
        reclog.configure(spec_r, fault)
        c15._fail["n"] = 0
        c15._fail["at"] = st.get("parser_fault")
        del _CAT[:]
        o = app.invoke(pre + args, string=st.get("stdin"))
        c15._fail["at"] = None
        reclog.configure({})
        R.count("invocations")
        R.count("exit_category_hook_calls", len(_CAT))
        if o.watchdog:
            R.skip("watchdog")
            continue
        col = 0 if scheme == "default" else 1
        # a command-line error is raised before any scheme can be read: 2 in both
        want_rc = TABLE[want][col] if want else None
        v = set()
        detail = {"case": spec, "scenario": name, "args": pre + args, "scheme": scheme, "via": via, "expected_category": want, "expected_rc": want_rc, "rc": o.rc, "category_at_exit": list(_CAT), "stderr": o.errtext[:300]}
        if want and o.rc != want_rc:
            v.add(f"{name.split(':')[0]}:{scheme}:rc={o.rc}-expected-{want_rc}({want})")
        if want and _CAT and _CAT[-1] != want:
            v.add(f"{name.split(':')[0]}:category-{_CAT[-1]}-expected-{want}")
        if _CAT and o.rc != TABLE[_CAT[-1]][col]:
            v.add(f"table:{_CAT[-1]}:{scheme}:rc={o.rc}")
        if want is None and o.rc == 0 and scheme == "default":
            v.add(f"{name}:failed-lookup-exits-0")
        R.distinct.add(PL.mix("C18", name, scheme) & 0xFFFFFFFFFFFF)
        R.see("categories", want or "unspecified")
        if v:
            if name.startswith("mix:"):
                detail["mixture"] = name
            R.viol.append([key, ";".join(sorted(v)), detail])
        elif len(R.samples) < 3:
            R.samples.append({"scenario": name, "scheme": scheme, "via": via, "rc": o.rc, "category": (_CAT[-1] if _CAT else "argparse-exit")})
    return R.as_dict()


REPRESENTATIVES = ["scan-clean", "scan-missing-path", "bad-option", "fix-fixable", "scan-failing", "bad-config-path", "undecodable-scan"]


def _subprocess_representatives(sb, app, R):
    by_name = {s[0]: s for s in SCENARIOS}
    for name in REPRESENTATIVES:
        _, st, args, want = by_name[name]
        for scheme in ("default", "minimal"):
            setup(sb, st)
            rc, out, err = app.cli(["--return-code-scheme", scheme] + args, cwd=sb.cwd)
            R.count("subprocess_runs")
            R.evals += 1
            want_rc = TABLE[want][0 if scheme == "default" else 1]
            if rc != want_rc:
                R.viol.append([f"SUB:{name}:{scheme}", f"process:{name}:{scheme}:rc={rc}-expected-{want_rc}", {"case": "SUB:0", "scenario": name, "stderr": err[:300]}])
