"""C07 — scan never fails internally; every report is in range, unique, ordered, repeatable.

Events: the failures of real in-process `scan-stdin` runs (emission order), stderr text, a second
scan of the same input in the same process, and (for a few documents per shard) a fresh CLI process.
Configurations per document: default rule set, every rule enabled, and two rules alone (chosen by
the document's universe index, so the case is frozen).
"""
import re

from vf import universe as U
from vf.checks import parserlevel as PL
from vf.monitors import detab

PROPERTY = "C07"
LEVEL = "exploration"
BASELINE = "C07"
REQUIRED_COUNTERS = ["scans", "failures_checked"]
ASSUMPTIONS = [
    "documents that do not tokenize are C01's concern and are skipped (counted)",
    "a line 'exists' if 1 <= line <= len(text.split('\\n')); column within max(raw, tab-expanded) length + 1",
]
LIMIT = {"Z2": 60000, "Z3": 30000, "Z4": 30000, "Z7": 30000, "Z10": 20000, "Z11": 30000, "Z12": 30000}
_PLUG = re.compile(r"Plugin id '([A-Za-z0-9]+)' had a critical failure during the '([a-z_]+)' action")
_LINE = re.compile(r"^(?:stdin|in-memory):(\d+):(\d+): ([A-Z0-9]+): ")


def universe_hash():
    return PL.hash_ab()


def plan(tier, seed, complete=False):
    items, zinfo = PL.plan_docs(
        tier, seed, complete, quick={"Z1": 1600, "Z2": 1600, "Z3": 1100, "Z4": 1100, "Z7": 1200, "Z10": 400, "Z11": 700, "Z12": 700}, z1_all=False, limit=LIMIT, zones=("Z1", "Z2", "Z3", "Z4", "Z7", "Z10", "Z11", "Z12"), force_b=True, check="C07"
    )
    return {
        "items": items, "zones": zinfo, "exhaustive": False,
        "rule": "documents of the frozen universes (Z1, prefixes of Z2/Z3/Z4) x {default rules, all rules, two index-chosen single rules}; "
        "distinct = distinct (document structure, set of rule ids reported)",
    }


witness_item = PL.witness_item
replay_item = PL.replay_item


def _key_index(key):
    try:
        return int(key.split(":")[1])
    except Exception:
        return PL.mix(key) & 0xFFFF


def check_failures(doc, fails, v, R):
    lines = doc.split("\n")
    seen = set()
    prev = None
    for ln, col, rid, extra in fails:
        R.count("failures_checked")
        R.see("rule_ids", rid)
        if not (1 <= ln <= len(lines)):
            v.add(f"line-out-of-range:{rid}")
        else:
            raw = lines[ln - 1]
            if not (1 <= col <= max(len(raw), len(detab(raw))) + 1):
                v.add(f"col-out-of-range:{rid}")
        k = (ln, col, rid, extra)
        if k in seen:
            v.add(f"duplicate:{rid}")
        seen.add(k)
        o = (ln, col, rid)
        if prev is not None and o < prev:
            v.add("unordered")
        prev = o


# a document with many blocks of many kinds, scanned in the same invocation *before* the document under
# test (every second group D case): rule objects live for the whole invocation, so whatever they forget to reset
# in starting_new_file meets the next file
HISTORY = ("# History\n\nfirst paragraph\n\nsecond paragraph\n\n- item\n- item\n\nthird\tparagraph\n\n[ref]: /u\n\n## Two\n\n"
           "fourth `code` *e* [ref]\n\n```text\ncode\n```\n\n> quote\n\n1. one\n1. two\n\nfifth paragraph   \n\n***\n\nlast <b>html</b>\n")


def run_items(items, job):
    import os

    from vf import app, pm

    sb = app.Sandbox(job["work"])
    allr = [r for r in pm.all_rules()]
    R = PL.Result()
    cli_budget = 3
    for it in items:
        key, doc = PL.item_doc(it)
        idx = PL.item_index(it, key)
        singles = [allr[(idx * 7) % len(allr)], allr[(idx * 13 + 5) % len(allr)]]
        configs = [("default", None), ("all", allr)] + [("only-" + s, [s]) for s in singles]
        R.evals += 1
        v = set()
        detail = {"doc": doc}
        skip = False
        rules_seen = set()
        for name, only in configs:
            o = app.scan_text(doc, only=only)
            R.count("scans")
            if o.watchdog:
                R.skip("scan-watchdog")
                skip = True
                break
            if o.tokenization_error:
                R.skip("does-not-parse(C01)")
                skip = True
                break
            m = _PLUG.search(o.errtext)
            if m:
                v.add(f"plugin-error:{m.group(1).upper()}:{m.group(2)}")
                detail.setdefault("errors", []).append([name, o.errtext[:300]])
                continue
            if o.err and o.rc != 0 and not o.failures and "Error" in o.errtext:
                v.add("scan-error:" + re.sub(r"[^A-Za-z]+", "-", o.errtext.strip()[:40]))
                detail.setdefault("errors", []).append([name, o.errtext[:300]])
                continue
            fails = o.fail_tuples()
            check_failures(doc, fails, v, R)
            rules_seen.update(f[2] for f in fails)
            if name == "all":
                o2 = app.scan_text(doc, only=only)
                R.count("scans")
                R.count("repeat_compared")
                if o2.fail_tuples() != fails or o2.errtext != o.errtext:
                    v.add("not-repeatable-same-process")
                if cli_budget > 0 and fails:
                    cli_budget -= 1
                    rc, out, err = app.cli(["--log-level", "CRITICAL"] + app.rule_args(only) + ["scan-stdin"], doc.encode("utf-8"), cwd=sb.cwd)
                    got = []
                    for line in out.split("\n"):
                        mm = _LINE.match(line)
                        if mm:
                            got.append((int(mm.group(1)), int(mm.group(2)), mm.group(3)))
                    R.count("fresh_process_compared")
                    if got != [(f[0], f[1], f[2]) for f in fails]:
                        v.add("not-repeatable-fresh-process")
                        detail["cli"] = out[:500]
            detail.setdefault("failures", {})[name] = fails[:40]
        if skip:
            continue
        grp_d = str(key).startswith(("Z10:", "Z11:", "Z12:")) or (isinstance(it, dict) and str(it.get("case", "")).startswith(("Z10:", "Z11:", "Z12:")))
        if grp_d and idx % 2 == 0 and "all" in detail.get("failures", {}) and doc:  # group D documents only (earlier baselines predate this)
            sb.clear_files()
            pa = sb.write_bytes("a_history.md", HISTORY.encode("utf-8"))
            pb = sb.write_bytes("b_doc.md", doc.encode("utf-8", "replace"))
            if doc.encode("utf-8", "replace").decode("utf-8") == doc:
                o = app.scan_files([pa, pb], only=allr)
                R.count("scans")
                R.count("after_history_compared")
                m = _PLUG.search(o.errtext)
                if m and not any(x.startswith("plugin-error:") for x in v):
                    v.add(f"after-history:plugin-error:{m.group(1).upper()}:{m.group(2)}")
                elif not o.watchdog and not m:
                    got = sorted((f[1], f[2], f[3], f[6]) for f in o.failures if os.path.basename(f[0]) == "b_doc.md")
                    want = sorted((f[0], f[1], f[2], f[3]) for f in detail["failures"]["all"]) if len(detail["failures"]["all"]) < 40 else None
                    if want is not None and got != want:
                        v.add("after-history:failures-differ:" + ",".join(sorted({x[2] for x in set(got) ^ set(want)})[:3]))
                        detail["after_history"] = got[:20]
        R.count("documents_scanned")
        R.distinct.add(PL.mix(doc[:64], len(doc), ",".join(sorted(rules_seen))) & 0xFFFFFFFFFFFF)
        if v:
            R.viol.append([key, ";".join(sorted(v)), detail])
        elif len(R.samples) < 2 and rules_seen:
            R.samples.append({"case": key, "doc": doc[:200], "failures_all_rules": detail["failures"].get("all", [])[:8]})
    return R.as_dict()
