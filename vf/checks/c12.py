"""C12 — rules are independent: the failures with a set of rules enabled are exactly the union of
what each of those rules reports when enabled alone.

Per document: one scan with every rule enabled, one scan per rule alone (46), the default set, and
the default set minus two index-chosen rules; multisets of (line, column, rule id, extra) compared.
"""
import collections

from vf import universe as U
from vf.checks import parserlevel as PL

PROPERTY = "C12"
LEVEL = "exploration"
BASELINE = "C12"
REQUIRED_COUNTERS = ["scans", "documents_compared", "single_rule_scans"]
ASSUMPTIONS = ["documents on which a scan ends in a tokenization or plugin error are skipped (C01/C07), counted"]
LIMIT = {"Z1": 5097, "Z3": 5000, "Z4": 3000, "Z7": 8000, "Z11": 4000, "Z12": 8000}
N_NEXT = 4000  # Z7 documents with a multi-rule disable-next-line pragma in front of the line on which most rules fire
N_PRAGMA = 3000  # Z7 documents with a pragma line (naming rules that fire) put on top: suppression must not depend on the rule set


def universe_hash():
    return PL.hash_ab()


def plan(tier, seed, complete=False):
    items, zinfo = PL.plan_docs(tier, seed, complete, quick={"Z1": 300, "Z3": 180, "Z4": 100, "Z7": 220, "Z11": 100, "Z12": 180}, z1_all=False, limit=LIMIT, zones=("Z1", "Z3", "Z4", "Z7", "Z11", "Z12"), force_b=True, check="C12")
    if complete or tier == "thorough":
        pidx = list(range(N_PRAGMA))
    else:
        pidx = U.pick("Z7", seed + 12, 120, 0, N_PRAGMA)
    if not PL.only_group_b():
        items = items + [f"PR:{i}" for i in pidx]
        zinfo["pragma-topped Z7 documents"] = {"universe": N_PRAGMA, "run": len(pidx)}
        nidx = list(range(N_NEXT)) if (complete or tier == "thorough") else U.pick("Z7", seed + 13, 160, 0, N_NEXT)
        items = items + [f"PN:{i}" for i in nidx]
        zinfo["Z7 documents with a multi-rule disable-next-line pragma"] = {"universe": N_NEXT, "run": len(nidx)}
    return {
        "items": items, "zones": zinfo, "exhaustive": False,
        "rule": "documents of the frozen universes (raw corpus, prefixes of Z3/Z4) x {all rules, each rule alone, default set, default minus two index-chosen rules}; "
        "distinct = distinct (document, set of rules that report)",
    }


witness_item = PL.witness_item
replay_item = PL.replay_item


def run_items(items, job):
    from vf import app, pm

    app.Sandbox(job["work"])
    allr = pm.all_rules()
    dflt = app.default_enabled()
    R = PL.Result()
    for it in items:
        if isinstance(it, str) and it.startswith("PR:"):
            key = it
            n = int(it.split(":")[1])
            body = U.doc("Z7", 40000 + n)
            if n % 2:
                body = body.rstrip("\n")  # MD047 fires on the last line
            nl = body.count("\n") + 2
            doc = f"<!-- pyml disable-num-lines {nl} md047,md041,md022,md009,md013-->\n" + body
        elif isinstance(it, str) and it.startswith("PN:"):
            key = it
            n = int(it.split(":")[1])
            body = U.doc("Z7", 50000 + n)
            pre = app.scan_text(body, only=allr)
            R.count("scans")
            by_line = {}
            for ft in pre.fail_tuples():
                by_line.setdefault(ft[0], []).append((ft[1], ft[2].lower()))
            if pre.watchdog or pre.tokenization_error or pre.plugin_error or not by_line:
                R.evals += 1
                R.skip("no-failure-to-suppress-or-scan-error")
                continue
            ln = max(sorted(by_line), key=lambda x: len({r_ for _, r_ in by_line[x]}))
            order = []
            for _, r_ in sorted(by_line[ln], reverse=(n % 2 == 0)):  # report order / reverse report order
                if r_ not in order:
                    order.append(r_)
            if len(order) > 1:
                R.count("multi_rule_next_line_pragmas")
            bl = body.split("\n")
            sep = [",", ", ", " ,"][n % 3]
            doc = "\n".join(bl[: ln - 1] + [f"<!-- pyml disable-next-line {sep.join(order)}-->"] + bl[ln - 1:])
        else:
            key, doc = PL.item_doc(it)
        R.evals += 1
        o = app.scan_text(doc, only=allr)
        R.count("scans")
        if o.watchdog or o.tokenization_error or o.plugin_error or (o.err and not o.failures and o.rc not in (0, 1)):
            R.skip("scan-error-or-watchdog")
            continue
        if o.err and "Error" in o.errtext:
            R.skip("scan-error-or-watchdog")
            continue
        f_all = collections.Counter(o.fail_tuples())
        v = set()
        detail = {"doc": doc, "diff": []}
        bad = False
        for r in allr:
            o1 = app.scan_text(doc, only=[r])
            R.count("scans")
            R.count("single_rule_scans")
            if o1.watchdog or o1.plugin_error or o1.tokenization_error:
                bad = True
                break
            f1 = collections.Counter(o1.fail_tuples())
            exp = collections.Counter({k: n for k, n in f_all.items() if k[2].lower() == r})
            if f1 != exp:
                v.add(f"alone-vs-all:{r.upper()}")
                detail["diff"].append([r, sorted((f1 - exp).elements())[:5], sorted((exp - f1).elements())[:5]])
            other = [k for k in f1 if k[2].lower() != r]
            if other:
                v.add(f"foreign-report-when-alone:{r.upper()}")
        if bad:
            R.skip("single-rule-scan-error")
            continue
        od = app.scan_text(doc)
        R.count("scans")
        if od.err and "Error" in od.errtext and not (od.watchdog or od.plugin_error or od.tokenization_error):
            R.skip("default-scan-ends-in-an-error-the-all-rules-scan-did-not-show")
        elif not (od.watchdog or od.plugin_error or od.tokenization_error):
            fd = collections.Counter(od.fail_tuples())
            exp = collections.Counter({k: n for k, n in f_all.items() if k[2].lower() in dflt})
            if fd != exp:
                rules = sorted({k[2] for k in (fd - exp)} | {k[2] for k in (exp - fd)})
                v.add("default-vs-all:" + ",".join(rules))
                detail["diff"].append(["default", sorted((fd - exp).elements())[:5], sorted((exp - fd).elements())[:5]])
                detail["default_scan_stderr"] = od.errtext[:400]
                detail["default_scan_rc"] = od.rc
            idx = PL.item_index(it, key)
            for j in (idx * 5 % len(dflt), (idx * 11 + 3) % len(dflt)):
                r = dflt[j]
                om = app.scan_text(doc, disable=[r])
                R.count("scans")
                if om.watchdog or om.plugin_error or om.tokenization_error:
                    continue
                fm = collections.Counter(om.fail_tuples())
                exp = collections.Counter({k: n for k, n in fd.items() if k[2].lower() != r})
                if fm != exp:
                    v.add(f"disable-changes-others:{r.upper()}")
                    detail["diff"].append(["-d " + r, sorted((fm - exp).elements())[:5], sorted((exp - fm).elements())[:5]])
        R.count("documents_compared")
        rules = sorted({k[2] for k in f_all})
        for r in rules:
            R.see("rule_ids", r)
        R.distinct.add(PL.mix(doc[:80], len(doc), ",".join(rules)) & 0xFFFFFFFFFFFF)
        if v:
            R.viol.append([key, ";".join(sorted(v)), detail])
        elif len(R.samples) < 2 and rules:
            R.samples.append({"case": key, "doc": doc[:200], "rules_reporting": rules, "failures": len(o.failures)})
    return R.as_dict()
