"""C08 — fix mode preserves meaning: only style changes.

Events: file text before / after a real `fix` run.  Oracle: content fingerprints (vf/fingerprint.py,
computed by the independent implementation) of before and after are equal, and no text character is
dropped or duplicated.  Configurations: default rule set and one fix-capable rule alone (index-chosen).
"""
import collections

from vf import universe as U
from vf.checks import parserlevel as PL

PROPERTY = "C08"
LEVEL = "exploration"
BASELINE = "C08"
REQUIRED_COUNTERS = ["fix_runs", "fingerprints_compared"]
ASSUMPTIONS = [
    "markdown-it-py's token stream is the independent reading of both the original and the fixed text",
    "documents on which fix ends in an error are skipped (C07/C15), counted; unchanged files compare trivially (counted separately)",
]
LIMIT = {"Z1": 15291, "Z3": 16000, "Z4": 8000, "Z7": 40000, "Z11": 30000, "Z12": 40000}


def universe_hash():
    return PL.hash_ab()


def plan(tier, seed, complete=False):
    items, zinfo = PL.plan_docs(tier, seed, complete, quick={"Z1": 1800, "Z3": 1200, "Z4": 600, "Z7": 2400, "Z11": 900, "Z12": 1500}, z1_all=False, limit=LIMIT, zones=("Z1", "Z3", "Z4", "Z7", "Z11", "Z12"), force_b=True, check="C08")
    return {
        "items": items, "zones": zinfo, "exhaustive": False,
        "rule": "documents of the frozen universes x {default rules, one index-chosen fix-capable rule alone}; non-trivial/distinct = "
        "(document, configuration) pairs whose fix changed the file (only those exercise the oracle)",
    }


witness_item = PL.witness_item
replay_item = PL.replay_item


def _kind(n):
    return "END" if n is None else n[0]


def run_items(items, job):
    from vf import app, fingerprint

    sb = app.Sandbox(job["work"])
    fix_all = app.fix_capable()
    fix_dflt = app.fix_capable(default_only=True)
    R = PL.Result()
    for it in items:
        key, doc = PL.item_doc(it)
        R.evals += 1
        if doc == "":
            R.skip("empty-document")
            continue
        idx = PL.item_index(it, key)
        single = fix_all[(idx * 7 + 2) % len(fix_all)]
        v = set()
        detail = {"doc": doc, "configs": {}}
        for name, only, active in (("default", None, {r.upper() for r in fix_dflt}), ("only:" + single, [single], {single.upper()})):
            sb.clear_files()
            o, after = app.fix_text(sb, doc, only=only)
            R.count("fix_runs")
            k = app.fix_error_kind(o)
            if k or after is None:
                R.skip("fix-" + (k or "undecodable"))
                continue
            if after == doc:
                R.count("unchanged")
                continue
            R.count("fingerprints_compared")
            R.distinct.add(PL.mix(key, name) & 0xFFFFFFFFFFFF)
            try:
                loose = "\t" in doc
                a = fingerprint.fingerprint(doc, active, loose_code_ws=loose)
                b = fingerprint.fingerprint(after, active, loose_code_ws=loose)
            except Exception as e:  # the oracle itself failed: abstain
                R.skip("oracle-error:" + type(e).__name__)
                continue
            d = fingerprint.first_difference(a, b)
            # letters and digits can never legitimately appear, disappear or be duplicated (markers may
            # move between text and markup, so they are not counted here)
            ca = fingerprint.alnum_chars(a)
            cb = fingerprint.alnum_chars(b)
            if ca - cb:
                v.add(f"{name}:letters-or-digits-lost")
            if cb - ca:
                v.add(f"{name}:letters-or-digits-added")
            if d is not None:
                i, x, y = d
                v.add(f"{name}:{_kind(x)}->{_kind(y)}")
                detail["configs"][name] = {"fixed": after, "first_difference": [i, x, y]}
            elif fingerprint.text_chars(a) != fingerprint.text_chars(b):
                v.add(f"{name}:text-chars")
                detail["configs"][name] = {"fixed": after}
            elif (ca - cb) or (cb - ca):
                detail["configs"][name] = {"fixed": after}
            elif len(R.samples) < 2:
                R.samples.append({"case": key, "config": name, "doc": doc[:160], "fixed": after[:160], "fingerprint_nodes": len(a)})
        if v:
            R.viol.append([key, ";".join(sorted(v)), detail])
    return R.as_dict()
