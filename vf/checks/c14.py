"""C14 — the rule engine honours the plugin life-cycle for every file.

Events: the call logs of recording rule plugins loaded through --add-plugin (one whose id sorts
before every built-in rule, one after, one disabled) merged with dispatcher-side events (every
parser result, every file opened as a source, every starting_new_file broadcast).  Online trace
checker per file and recorder:

  scan:  S T* L* C     T* identical (object identity) to the token list the parser returned for that
                       file minus the trailing pragma token; L* = (1,line1)...(m,linem) = the file's lines
  fix:   ( S+ T* [L*] C )*  each T* a complete parser result for that file, each L* complete and
                       consecutive (exact text for the first-sorted recorder); a recorder that does not
                       support fix only ever sees S; the fixed bytes equal those of the run without recorders
  disabled recorder: nothing
"""
import os

from vf import universe as U
from vf.checks import parserlevel as PL

PROPERTY = "C14"
LEVEL = "exploration"
BASELINE = "C14"
REQUIRED_COUNTERS = ["invocations", "recorder_events", "files_checked", "token_lists_matched", "line_runs_matched"]
ASSUMPTIONS = [
    "repeated starting_new_file calls inside fix mode are reset notifications and inside the language (the statement does not forbid them)",
    "files that do not tokenize are skipped (C01), counted",
]

KINDS = [("scan-only", False, 0), ("fix0", True, 0), ("fix1", True, 1), ("fix2", True, 2), ("fix3", True, 3), ("fix5", True, 5), ("fix9", True, 9)]
CBS = ["STLC", "T", "L", "STC", "SLC"]
SPECIAL = [
    "", "a", "a\n", "\n", "\n\n", "<!-- pyml disable-next-line md009-->", "<!-- pyml disable-next-line md009-->\ntext   \n",
    "# h\n\ntext\n", "- a\n- b", "line1\r\nline2\r\n", "text   \n\n\n\nmore\t\n", "[a]: /u\n\n[a]\n", "#  h\n\n*  x\n",
    "1. a\n1. b\n", "text\n<!-- pyml disable-num-lines 2 md013-->\nmore", "> q\nlazy\n",
    # characters that str.splitlines() treats as line boundaries but that are not line endings of a text file
    "form\x0cfeed\nnext\n", "vertical\x0btab\n", "sep\u2028arator\nline\n", "para\u2029graph", "next\x85line\nx\n", "fs\x1cgs\x1drs\x1e\nend\n",
]
N_VARIANTS = len(KINDS) * len(KINDS) * len(CBS) * len(CBS) * 2
N_CASES = N_VARIANTS * 6


def universe_hash():
    return U.content_hash()


def decode(i):
    v = i % N_VARIANTS
    d = i // N_VARIANTS
    fk = KINDS[v % 7]
    lk = KINDS[(v // 7) % 7]
    fc = CBS[(v // 49) % 5]
    lc = CBS[(v // 245) % 5]
    mode = "fix" if (v // 1225) % 2 else "scan"
    n1 = U.size("Z1")
    nfiles = (i * 7 + d) % 3 + 1
    docs = []
    for j in range(nfiles):
        h = PL.mix("c14", i, j)
        if h % 3 == 0:
            docs.append(SPECIAL[(h >> 8) % len(SPECIAL)])
        else:
            docs.append(U.doc("Z1", (h >> 8) % n1))
    spec = {
        "first": {"enabled": True, "fix": fk[1], "level": fk[2], "callbacks": fc},
        "last": {"enabled": True, "fix": lk[1], "level": lk[2], "callbacks": lc},
        "off": {"enabled": False, "fix": True, "level": 0, "callbacks": "STLC"},
    }
    return {"mode": mode, "docs": docs, "spec": spec, "label": f"{mode}|first={fk[0]}/{fc}|last={lk[0]}/{lc}"}


def plan(tier, seed, complete=False):
    if complete or tier == "thorough":
        idx = list(range(N_CASES))
    else:
        from vf.prng import R, mix

        idx = R(mix("C14", seed)).sample(N_CASES, 2400)
    return {
        "items": [f"K:{i}" for i in idx], "zones": {"lifecycle cases": {"universe": N_CASES, "run": len(idx)}},
        "exhaustive": bool(complete or tier == "thorough"),
        "rule": "case i = (scan|fix) x first-sorted recorder {scan-only, fix level 0,1,2,3,5,9} x last-sorted recorder (same) x callbacks implemented "
        "{all, tokens only, lines only, no lines, no tokens} each x 1-3 files (edge documents: empty, one line, no final newline, pragma-only, CR-LF; corpus documents); "
        "distinct = distinct (variant label, number of files)",
    }


def witness_item(k):
    return {"key": "W:" + k["id"], "case": k["witness"]["case"]}


def replay_item(rp):
    return {"key": str(rp["case"]), "case": rp["detail"]["case"]}


def _lines_of(text):
    return text.split("\n")


def _strip_pragma(toks):
    return toks[:-1] if toks and toks[-1].token_name == "pragma" else toks


def check_file_segment(seg, mode, spec, R, v):
    """seg: events of one file (in order)."""
    parses = [e for e in seg if e[0] == "PARSE"]
    opens = [e for e in seg if e[0] == "OPEN"]
    if any(e[0] == "PARSE-ERR" for e in seg) or not parses:
        R.skip("does-not-parse(C01)")
        return
    R.count("files_checked")
    for role in ("first", "last", "off"):
        sp = spec[role]
        cb = sp["callbacks"]
        ev = [e for e in seg if e[0] in "STLC" and len(e[0]) == 1 and e[1] == role]
        R.count("recorder_events", len(ev))
        if not sp["enabled"]:
            if ev:
                v.add(f"{mode}:disabled-recorder-called")
            continue
        if mode == "fix" and not sp["fix"]:
            if any(e[0] != "S" for e in ev):
                v.add(f"fix:non-fix-recorder-got-{'/'.join(sorted({e[0] for e in ev if e[0] != 'S'}))}")
            continue
        # passes
        cands = []
        for pe in parses:
            full = pe[1]
            if mode == "fix":
                cands.append((full, pe[2]))
            cands.append((_strip_pragma(full), pe[2]))
        cands.sort(key=lambda c: -len(c[0]))
        line_cands = [_lines_of(o[2]) for o in opens if o[2] is not None]
        if mode == "scan":
            line_cands = line_cands[:1]
        pos = 0
        npass = 0
        n = len(ev)
        while pos < n:
            ns = 0
            while pos < n and ev[pos][0] == "S":
                pos += 1
                ns += 1
            if pos >= n:
                if mode == "scan" and npass == 0 and cb != "S":
                    v.add(f"scan:{role}:only-start-notifications")
                break
            if "S" in cb and ns == 0:
                v.add(f"{mode}:{role}:pass-without-start")
            if mode == "scan" and (ns > 1 or npass >= 1):
                v.add(f"scan:{role}:more-than-one-pass-or-start")
            npass += 1
            start = pos
            if "T" in cb:
                run = 0
                while pos + run < n and ev[pos + run][0] == "T":
                    run += 1
                matched = None
                for c, text in cands:
                    if 0 < len(c) <= run and all(ev[pos + j][2] is c[j] for j in range(len(c))):
                        matched = c
                        break
                if matched is not None:
                    pos += len(matched)
                    R.count("token_lists_matched")
                    # "every token of the stream" includes its terminator: rules finish their per-file
                    # work on the end-of-stream token, which must come exactly once, last
                    core = _strip_pragma(matched)  # fix mode hands the trailing pragma token on as well
                    eos = [j for j, t in enumerate(core) if getattr(t, "is_end_of_stream", False)]
                    if eos != [len(core) - 1]:
                        v.add(f"{mode}:{role}:" + ("no-end-of-stream-token" if not eos else "end-of-stream-token-not-last-or-repeated"))
                else:
                    v.add(f"{mode}:{role}:" + ("no-tokens" if run == 0 else "tokens-differ-from-parser-result"))
                    pos += run
            if "L" in cb:
                ls = []
                while pos < n and ev[pos][0] == "L" and (not ls or ev[pos][2] == ls[-1][2] + 1):
                    ls.append(ev[pos])
                    pos += 1
                if ls or mode == "scan":
                    if not ls or ls[0][2] != 1:
                        v.add(f"{mode}:{role}:line-numbers-not-consecutive")
                        while pos < n and ev[pos][0] == "L":
                            pos += 1
                    got = [e[3] for e in ls]
                    if role == "first" or mode == "scan":
                        if any(got == w for w in line_cands):
                            R.count("line_runs_matched")
                        elif any(len(got) == len(w) for w in line_cands):
                            v.add(f"{mode}:{role}:line-text-differs")
                        else:
                            v.add(f"{mode}:{role}:line-count-differs")
                    elif any(len(got) == len(w) for w in line_cands):
                        R.count("line_runs_matched")
                    else:
                        v.add(f"{mode}:{role}:line-count-differs")
            if "C" in cb:
                nc = 0
                while pos < n and ev[pos][0] == "C":
                    pos += 1
                    nc += 1
                if nc != 1:
                    v.add(f"{mode}:{role}:completed-called-{nc}-times")
            if pos == start:
                # nothing consumable: unexpected event kind for this recorder
                v.add(f"{mode}:{role}:unexpected-{ev[pos][0]}")
                pos += 1
        if mode == "scan" and npass == 0 and not ev and cb:
            v.add(f"scan:{role}:never-called")


def run_items(items, job):
    from vf import app, reclog

    reclog.install_wrappers()
    sb = app.Sandbox(job["work"])
    R = PL.Result()
    for it in items:
        if isinstance(it, dict):
            key, ci = it["key"], it["case"]
        else:
            key, ci = it, int(it.split(":")[1])
        case = decode(ci)
        R.evals += 1
        sb.clear_files()
        names = ["f1.md", "f2.md", "f3.md"][: len(case["docs"])]
        paths = [sb.write_bytes(n, d.encode("utf-8")) for n, d in zip(names, case["docs"])]
        plug = []
        for role in ("first", "last", "off"):
            plug += ["--add-plugin", reclog.plugin_path(role)]
        v = set()
        detail = {"case": ci, "label": case["label"], "docs": case["docs"]}
        # reference run without recorders (fix mode): a passive observer must not change the outcome
        ref_bytes = None
        reclog.configure({})
        o0 = app.invoke(["--log-level", "CRITICAL", case["mode"]] + paths)
        R.count("invocations")
        if o0.watchdog or o0.plugin_error or (case["mode"] == "fix" and app.fix_error_kind(o0)):
            R.skip("reference-run-error(C07/C15)")
            continue
        if case["mode"] == "fix":
            ref_bytes = {n: sb.read(n) for n in names}
            for n, d in zip(names, case["docs"]):
                sb.write_bytes(n, d.encode("utf-8"))
        reclog.configure(case["spec"])
        o = app.invoke(["--log-level", "CRITICAL"] + plug + [case["mode"]] + paths)
        R.count("invocations")
        events = list(reclog.EVENTS)
        reclog.configure({})
        if o.watchdog:
            R.skip("watchdog")
            continue
        if o.plugin_error or "Error" in o.errtext and "BadTokenizationError" not in o.errtext:
            v.add(case["mode"] + ":run-with-recorders-errors")
            detail["stderr"] = o.errtext[:400]
        # split per file: follow source-provider opens / starting_new_file / scratch copies of inputs
        segs = {}
        track = reclog.input_file_tracker(names)
        by_name = dict(zip(names, paths))
        for e in events:
            cur = track(e)
            if cur is not None:
                segs.setdefault(by_name[cur], []).append(e)
        for p in paths:
            seg = segs.get(p)
            if seg is None:
                if not o.tokenization_error:
                    v.add(case["mode"] + ":file-never-started")
                continue
            check_file_segment(seg, case["mode"], case["spec"], R, v)
        if ref_bytes is not None and not o.tokenization_error:
            for n in names:
                if sb.read(n) != ref_bytes[n]:
                    v.add("fix:passive-recorder-changes-result")
                    detail.setdefault("bytes", {})[n] = [ref_bytes[n].decode("utf-8", "replace")[:200], sb.read(n).decode("utf-8", "replace")[:200]]
        R.distinct.add(PL.mix(case["label"], len(paths)) & 0xFFFFFFFFFFFF)
        R.see("variants", case["label"])
        if v:
            R.viol.append([key, ";".join(sorted(v)), detail])
        elif len(R.samples) < 2:
            evs = [(e[0], e[1]) + ((str(e[2])[:30],) if e[0] == "T" else tuple(e[2:4]) if e[0] == "L" else ()) for e in events if e[0] in "STLC" and len(e[0]) == 1][:14]
            R.samples.append({"case": key, "label": case["label"], "docs": [d[:60] for d in case["docs"]], "first_events": evs})
    return R.as_dict()
