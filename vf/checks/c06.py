"""C06 — rule verdicts match the documented condition, no more and no less.

Events: the (line, rule id) set of a real in-process scan with exactly one rule enabled under one
configuration.  Oracle: vf/ruleoracle.py (the rule's documented condition over raw lines + the
independent parser's block structure), three-valued per line.  Only judged on documents on which
pymarkdown and the independent parser agree on the structure (the property's own precondition).
"""
from vf import universe as U
from vf.checks import parserlevel as PL
from vf.prng import R as PR

PROPERTY = "C06"
LEVEL = "exploration"
BASELINE = "C06"
REQUIRED_COUNTERS = ["scans", "verdicts_judged", "must_report_regions", "documents_in_agreement"]
ASSUMPTIONS = [
    "oracles are transcriptions of newdocs/src/plugins/rule_mdXXX.md; where a page is silent the oracle abstains (counted)",
    "rules judged: md001 md003 md004 md009 md010 md012 md013 md019 md022 md023 md024 md025 md026 md031 md032 md035 md040 md041 md042 md045 md046 md047 md048",
]
N_Z1 = 5097
N_Z3 = 10000
N_Z7 = 20000
N_HS = 4000  # heading sequences: 2-6 headings over levels 1-4 with texts from a two-word vocabulary (hierarchy rules)
N_CASES = N_Z1 + N_Z3 + N_Z7 + N_HS


def universe_hash():
    return PL.hash_ab()


def plan(tier, seed, complete=False):
    if complete or tier == "thorough":
        idx = list(range(N_CASES))
    else:
        from vf.prng import R, mix

        r = R(mix("C06", seed))
        idx = sorted(set(r.sample(N_Z1, 550)) | {N_Z1 + k for k in r.sample(N_Z3, 500)} | {N_Z1 + N_Z3 + k for k in r.sample(N_Z7, 700)} | {N_Z1 + N_Z3 + N_Z7 + k for k in r.sample(N_HS, 900)})
    return {
        "items": [f"R:{i}" for i in idx],
        "zones": {"corpus": {"universe": N_Z1}, "rule-trigger documents (Z7)": {"universe": N_Z7}, "heading sequences": {"universe": N_HS}, "calm trees (every second one sprayed with long lines / trailing spaces / tabs / blank runs)": {"universe": N_Z3}, "run": {"documents": len(idx)}},
        "exhaustive": False,
        "rule": "document x rule (23 rules with a crisp documented condition) x that rule's documented configuration values (index-chosen subset per document); "
        "distinct = distinct (rule, configuration, document) triples in which the oracle demanded at least one report",
    }


def witness_item(k):
    w = k["witness"]
    return {"key": "W:" + k["id"], "case": w["case"]} if "case" in w else {"key": "W:" + k["id"], "doc": w["doc"]}


def replay_item(rp):
    return {"key": str(rp["case"]), "case": str(rp["case"])}


def heading_sequence(j):
    r = PR(0x06500000 + j)
    n = r.randint(2, 6)
    out = []
    for _ in range(n):
        lvl = r.randint(1, 4)
        text = r.choice(["Alpha", "Beta", "Alpha", "Gamma delta"])
        if lvl <= 2 and r.chance(0.06):
            out += [text, "=" * 5 if lvl == 1 else "-" * 5, ""]
        else:
            out += ["#" * lvl + " " + text, ""]
        if r.chance(0.3):
            out += ["some text", ""]
    return "\n".join(out)


def case_doc(i):
    if i >= N_Z1 + N_Z3 + N_Z7:
        return heading_sequence(i - N_Z1 - N_Z3 - N_Z7)
    if i < N_Z1:
        return U.doc("Z1", i)
    if i >= N_Z1 + N_Z3:
        return U.doc("Z7", i - N_Z1 - N_Z3)
    j = i - N_Z1
    # Z3 indices with i % 8 in (3, 7) are the sprayed ones: use them for every second document
    base = (j // 2) * 8 + (3 if j % 2 else 0) if j % 2 else j
    return U.doc("Z3", base % U.Z3_SIZE)


def run_items(items, job):
    from vf import app, htmlcmp, pm, ruleoracle

    app.Sandbox(job["work"])
    T = pm.make_tokenizer(pm.ext_config(set()))
    R = PL.Result()
    rules = sorted(ruleoracle.ORACLES)
    for it in items:
        if isinstance(it, dict) and it.get("case"):
            key = it["key"]
            idx = int(str(it["case"]).split(":")[1])
            doc = case_doc(idx)
        elif isinstance(it, dict):
            key, doc = it["key"], it["doc"]
            idx = PL.mix(doc) & 0xFFFF
        else:
            key = it
            idx = int(it.split(":")[1])
            doc = case_doc(idx)
        R.evals += 1
        if doc.strip() == "" or "pyml" in doc.lower():
            R.skip("empty-or-pragma-document")
            continue
        kind, toks, _ = pm.parse(T, doc, cpu_s=4)
        if kind != "tokens":
            R.skip("does-not-parse(C01)")
            continue
        try:
            verdict, _sig = htmlcmp.compare(doc, pm.to_html(toks))
        except Exception:
            verdict = "differ"
        if verdict != "agree":
            R.skip("structure-not-in-agreement(C03 precondition)" if verdict == "differ" else "oracle-abstains")
            continue
        R.count("documents_in_agreement")
        v = set()
        detail = {"doc": doc, "case": (it if isinstance(it, str) else it.get("case")), "findings": []}
        r = PR(0x06000000 + idx)
        for rule in rules:
            fn, cfgs = ruleoracle.ORACLES[rule]
            # default configuration always; one other documented configuration chosen by index
            chosen = [cfgs[0]] + ([cfgs[1 + r.below(len(cfgs) - 1)]] if len(cfgs) > 1 else [])
            for cfg in chosen:
                o = app.scan_text(doc, only=[rule], sets=ruleoracle.set_args(rule, cfg))
                R.count("scans")
                if o.watchdog or o.plugin_error or o.tokenization_error or (o.err and "Error" in o.errtext):
                    R.skip("scan-error(C07)")
                    continue
                rep = [f[0] for f in o.fail_tuples() if f[2].lower() == rule]
                try:
                    missed, spurious, n_silent, n_must = ruleoracle.judge(rule, cfg, doc, rep)
                except Exception as e:
                    R.skip("oracle-error:" + type(e).__name__)
                    continue
                R.count("verdicts_judged")
                R.count("must_report_regions", n_must)
                R.count("lines_abstained", n_silent)
                R.see("rules", rule)
                cfg_s = ",".join(f"{k}={v_}" for k, v_ in sorted(cfg.items())) or "default"
                if n_must:
                    R.distinct.add(PL.mix(rule, cfg_s, key) & 0xFFFFFFFFFFFF)
                if missed:
                    v.add(f"{rule.upper()}:missed[{cfg_s}]")
                    detail["findings"].append([rule, cfg_s, "missed", missed[:4], sorted(set(rep))[:8]])
                if spurious:
                    v.add(f"{rule.upper()}:spurious[{cfg_s}]")
                    detail["findings"].append([rule, cfg_s, "spurious", spurious[:6], sorted(set(rep))[:8]])
                if not missed and not spurious and n_must and len(R.samples) < 3:
                    R.samples.append({"case": key, "rule": rule, "config": cfg_s, "doc": doc[:160], "reported_lines": sorted(set(rep))[:8]})
        if v:
            R.viol.append([key, ";".join(sorted(v)), detail])
    return R.as_dict()
