"""setup_cmd self-test: the tree under test imports, the monitors can fire, the vendored oracle works."""
PROPERTY = "selftest"


def main():
    from vf import htmlcmp, monitors, pm

    T = pm.make_tokenizer()
    k, toks, _ = pm.parse(T, "# a\n\n- b\n  *c*\n")
    assert k == "tokens"
    assert monitors.c04(toks)[0] == []
    assert pm.to_markdown(toks) == "# a\n\n- b\n  *c*\n"
    assert htmlcmp.compare("# a\n", pm.to_html(pm.parse(T, "# a\n")[1]))[0] == "agree"
    # a deliberately broken stream must trip the automaton
    assert monitors.c04(toks[:-2])[0]
    print("selftest ok")
    return 0
