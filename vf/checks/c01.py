"""C01 — parsing is total and polynomially bounded.

Events: outcome of every TokenizedMarkdown.transform call (tokens | exception chain | step budget
exceeded) and its deterministic work count W (function entries inside pymarkdown/, via
sys.monitoring).  Oracle: (a) outcome is a token list; (b) W <= K*(n+64)^2 (bounded progress:
a non-terminating loop exhausts it); (c) on scaling families log2(W(2n)/W(n)) <= EXP_LIMIT.
No wall clock enters a verdict.
"""
import math

from vf import universe as U
from vf.checks import parserlevel as PL

PROPERTY = "C01"
LEVEL = "exploration"
SHRINKABLE = True  # violating documents are minimised (ddmin) before the replay file is written
BASELINE = "C01"
REQUIRED_COUNTERS = ["parse_calls", "step_events_nonzero"]
ASSUMPTIONS = [
    "work is measured as PY_START events inside pymarkdown/ (deterministic); wall-clock never decides",
    "universes Z1..Z4 are frozen (vf/universe.py); only the explored indices are claimed",
]

K_BUDGET = 40  # set from the pinned tree: see DESIGN.md (max observed W/(n+64)^2 is < 10)
EXP_LIMIT = 2.3
STALL_CPU_S = 20.0
FAM_SIZES = (50, 100, 200)


def budget(n):
    return K_BUDGET * (n + 64) ** 2


def universe_hash():
    return U.content_hash()


def canon_signature(atom):
    """Non-termination is one mechanism class.  The function the step budget ran out in, and whether the
    budget exception or the CPU watchdog ended the parse, depend on how many steps earlier documents of
    the same worker spent on first-use code paths: they go into the witness detail, not into the signature
    (baselines written before this was learnt are read through this mapping)."""
    return "nonterminating" if str(atom).startswith(("loop:", "stall:")) else atom


# ---- scaling families ---------------------------------------------------------------------
def _fam(name, n):
    f = FAMILIES[name]
    return f(n)


FAMILIES = {
    "para-words": lambda n: "word " * n + "\n",
    "para-lines": lambda n: "line of text\n" * n,
    "paragraphs": lambda n: "para\n\n" * n,
    "star-run": lambda n: "*" * n + "\n",
    "underscore-run": lambda n: "_" * n + "a\n",
    "emph-open": lambda n: "*a " * n + "\n",
    "emph-pairs": lambda n: "*a* " * n + "\n",
    "emph-nested": lambda n: "*" * n + "a" + "*" * n + "\n",
    "open-brackets": lambda n: "[" * n + "\n",
    "close-brackets": lambda n: "]" * n + "\n",
    "bracket-pairs": lambda n: "[a]" * n + "\n",
    "links-inline": lambda n: "[a](/u) " * n + "\n",
    "links-ref": lambda n: "[a][r] " * n + "\n\n[r]: /u\n",
    "images": lambda n: "![a](/u) " * n + "\n",
    "nested-brackets": lambda n: "[" * n + "a" + "]" * n + "\n",
    "backticks": lambda n: "`" * n + "\n",
    "code-spans": lambda n: "`a` " * n + "\n",
    "backtick-mismatch": lambda n: " ".join("`" * (i % 7 + 1) for i in range(n)) + "\n",
    "angle-open": lambda n: "<" * n + "\n",
    "autolinks": lambda n: "<http://a.b> " * n + "\n",
    "raw-html": lambda n: "<b>x</b> " * n + "\n",
    "entities": lambda n: "&amp; " * n + "\n",
    "ampersands": lambda n: "&" * n + "\n",
    "backslashes": lambda n: "\\" * n + "\n",
    "escapes": lambda n: "\\* " * n + "\n",
    "hard-breaks": lambda n: "a  \n" * n,
    "tabs": lambda n: "a\tb" * n + "\n",
    "atx-headings": lambda n: "# h\n" * n,
    "setext-headings": lambda n: "h\n===\n\n" * n,
    "tbreaks": lambda n: "---\n" * n,
    "fenced-blocks": lambda n: "```\ncode\n```\n" * n,
    "fenced-long": lambda n: "```\n" + "code line\n" * n + "```\n",
    "indented-code": lambda n: "    code\n" * n,
    "html-blocks": lambda n: "<div>\n\n" * n,
    "lrds": lambda n: "".join(f"[r{i}]: /u{i}\n" for i in range(n)),
    "lrd-then-use": lambda n: "".join(f"[r{i}]: /u{i}\n" for i in range(n)) + "\n" + " ".join(f"[r{i}]" for i in range(n)) + "\n",
    "ulist-items": lambda n: "- item\n" * n,
    "olist-items": lambda n: "".join(f"{i+1}. item\n" for i in range(n)),
    "ulist-loose": lambda n: "- item\n\n" * n,
    "quote-lines": lambda n: "> quoted\n" * n,
    "quote-lazy": lambda n: "> quoted\n" + "lazy\n" * n,
    "list-lazy": lambda n: "- item\n" + "lazy\n" * n,
    "quote-in-list-items": lambda n: "- > q\n" * n,
    "list-in-quote-items": lambda n: "> - i\n" * n,
    "blank-lines": lambda n: "\n" * n,
    "blank-lines-in-quote": lambda n: ">\n" * n,
    "long-line-nospace": lambda n: "a" * (n * 4) + "\n",
    "pipes": lambda n: "| a " * n + "|\n",
    "nested-quotes": lambda n: "> " * min(n, 40) + "a\n" if n <= 40 else ("> " * 40 + "a\n") * (n // 40),
    "nested-lists-depth": lambda n: "".join("  " * (i % 12) + "- a\n" for i in range(n)),
    "mixed-inline": lambda n: "*a* `b` [c](/d) <e@f.g> &amp; \\* " * (n // 4 + 1) + "\n",
}


def plan(tier, seed, complete=False):
    quick = {"Z2": 20000, "Z3": 2500, "Z4": 2500}
    items, zinfo = PL.plan_docs(tier, seed, complete, quick=quick, check="C01")
    fams = [] if PL.only_group_b() else [{"fam": k} for k in sorted(FAMILIES)]
    return {
        "items": fams + items,
        "zones": zinfo,
        "exhaustive": False,
        "rule": "documents U(zone,i) of the frozen universes Z1 (repo corpus x 6 mechanical variants, all), Z2 (tiny-exhaustive "
        "fragment sequences), Z3 (calm block trees), Z4 (hostile: prefix soup / mangled indentation) at seed-chosen indices "
        "(thorough: all) + scaling families; a case is non-trivial/distinct by its distinct token-kind sequence "
        "(or distinct failure signature when it does not parse)",
    }


witness_item = PL.witness_item
replay_item = PL.replay_item


def run_items(items, job):
    from vf import pm

    tok = pm.make_tokenizer()
    ctr = pm.StepCounter()
    ctr.start()
    R = PL.Result()
    try:
        for it in items:
            if isinstance(it, dict) and "fam" in it:
                _run_family(pm, tok, ctr, it["fam"], R)
                continue
            key, doc = PL.item_doc(it)
            n = len(doc)
            kind, val, steps = pm.parse(tok, doc, cpu_s=STALL_CPU_S, counter=ctr, budget=budget(n))
            R.evals += 1
            R.count("parse_calls")
            if steps > 0:
                R.count("step_events_nonzero")
            if kind == "tokens":
                R.distinct.add(PL.structure_hash(val))
                for t in val:
                    R.see("token_kinds", t.token_name)
                ratio = steps / float((n + 64) ** 2)
                R.counters["max_ratio_x1000"] = max(R.counters.get("max_ratio_x1000", 0), int(ratio * 1000))
                if len(R.samples) < 2:
                    R.samples.append({"case": key, "doc": doc[:200], "steps": steps, "tokens": len(val)})
            elif kind == "error":
                sig = "exc:" + pm.exc_signature(val)
                R.viol.append([key, sig, {"doc": doc, "error": pm.exc_text(val), "steps": steps}])
                R.distinct.add(PL.mix(sig, n) & 0xFFFFFFFFFFFF)
            elif kind == "budget":
                R.viol.append([key, "nonterminating", {"doc": doc, "how": "step budget exceeded: " + val, "steps": steps, "budget": budget(n), "stacks": [s[-6:] for s in ctr.snaps]}])
            else:
                # CPU consumed without function entries (work inside a C extension such as the regular
                # expression engine is invisible to the step counter): 20 s of *process* CPU time on one
                # document is four orders of magnitude above the slowest pinned-tree parse
                R.viol.append([key, "nonterminating", {"doc": doc, "how": "CPU time consumed without function entries (inside a C extension)", "steps": steps, "cpu_s": STALL_CPU_S}])
    finally:
        ctr.stop()
    # max over shards is not additive: report separately
    d = R.as_dict()
    mr = d["counters"].pop("max_ratio_x1000", 0)
    d["observed"]["max_steps_ratio_x1000"] = [mr]
    return d


def _run_family(pm, tok, ctr, name, R):
    ws = []
    for n in FAM_SIZES:
        doc = FAMILIES[name](n)
        kind, val, steps = pm.parse(tok, doc, cpu_s=300, counter=ctr, budget=budget(len(doc)) * 4)
        R.evals += 1
        R.count("family_parses")
        if kind != "tokens":
            sig = ("exc:" + pm.exc_signature(val)) if kind == "error" else ("loop:" + str(val))
            R.viol.append([f"fam:{name}:{n}", "family:" + sig, {"doc": doc[:300], "family": name, "n": n}])
            return
        ws.append(steps)
    exps = [math.log2(ws[i + 1] / ws[i]) for i in range(len(ws) - 1)]
    R.see("family_exponents", f"{name}:{max(exps):.2f}")
    R.distinct.add(PL.mix("fam", name) & 0xFFFFFFFFFFFF)
    if max(exps) > EXP_LIMIT:
        R.viol.append([f"fam:{name}", "growth:" + name, {"family": name, "steps": ws, "exponents": exps, "doc": FAMILIES[name](8)}])
