"""C10 — fix reporting is truthful and scan is read-only.

Events per case (a set of 1-3 files in a private cwd with a private TMPDIR): SHA-256 of every file
before/after each invocation, the announced `Fixed:` files, the exit code in the chosen scheme, and
an audit-hook log of every write-open / remove / rename.  Oracle: bytes changed <=> announced <=>
fixed-at-least-one result; a file without a fix-capable failure is byte-identical after fix; scan,
scan-stdin and --list-files leave every snapshot identical and never write-open an existing file.

Second family (cases N:i): the same oracle for files with CR-LF, lone-CR and mixed line endings (a clean
file must stay byte-identical whatever its line endings), and for the API entry points fix_path /
fix_string under both return-code schemes (files_fixed / was_fixed must say exactly what changed).
"""
import os
import sys

from vf import universe as U
from vf.checks import parserlevel as PL

PROPERTY = "C10"
LEVEL = "exploration"
BASELINE = "C10"
REQUIRED_COUNTERS = ["fix_invocations", "files_judged", "readonly_invocations", "audit_events"]
ASSUMPTIONS = [
    "cases whose fix run ends in a tokenization / plugin / conflict error are C15's concern and skipped (counted)",
    "a --log-file target would be excluded; none is requested here",
]
N_CASES = 30000
N_N = 18000
# third family (cases T:i): trailing white space that the scan accepts or rejects by a narrow margin, in every kind of
# leaf: the fix side of a rule must not be broader than its scan side (a file whose scan is clean stays byte-identical)
T_LEAVES = [
    "# Title{ws}\n\ntext\n",
    "# Title #{ws}\n\ntext\n",
    "Title{ws}\n=====\n\ntext\n",
    "# T\n\nline one{ws}\nline two\n",
    "# T\n\nlast line{ws}\n",
    "# T\n\n- item{ws}\n  more\n",
    "# T\n\n> quote{ws}\n> more\n",
    "# T\n\n```text\ncode{ws}\n```\n",
    "# T\n\n    code{ws}\n",
    "# T\n\n<div>{ws}\n</div>\n",
    "# T\n\n[a]: /u{ws}\n\n[a]\n",
    "# T\n\n## Second{ws}\n\ntext{ws}\nmore\n",
    "# T\n\n1. one{ws}\n   two\n1. three\n",
    "# T\n\n---{ws}\n\ntext\n",
]
T_WS = ["  ", " ", "   ", "", "\t", "    "]
T_SETS = [[], ["--set", "plugins.md009.br_spaces=$#3"], ["--strict-config", "--set", "plugins.md009.strict=$!True"], ["--set", "plugins.md009.list_item_empty_lines=$!True"]]
N_T = len(T_LEAVES) * len(T_WS) * len(T_SETS) * 2


def t_case(i):
    leaf = T_LEAVES[i % len(T_LEAVES)]
    j = i // len(T_LEAVES)
    ws = T_WS[j % len(T_WS)]
    j //= len(T_WS)
    sets = T_SETS[j % len(T_SETS)]
    j //= len(T_SETS)
    return {"a.md": leaf.replace("{ws}", ws)}, ("minimal" if j % 2 else "default"), sets



def universe_hash():
    return U.content_hash()


def plan(tier, seed, complete=False):
    from vf.prng import R, mix

    if complete or tier == "thorough":
        idx = list(range(N_CASES))
        nidx = list(range(N_N))
    else:
        idx = R(mix("C10", seed)).sample(N_CASES, 1600)
        nidx = R(mix("C10N", seed)).sample(N_N, 900)
    return {
        "items": [f"K:{i}" for i in idx] + [f"N:{i}" for i in nidx] + [f"T:{i}" for i in range(N_T)],
        "zones": {"file-set cases": {"universe": N_CASES, "run": len(idx)}, "trailing-white-space x leaf kind x MD009 settings x scheme (T, always complete)": {"universe": N_T, "run": N_T}, "line-ending x entry-point (CLI fix, API fix_path, API fix_string) x scheme cases": {"universe": N_N, "run": len(nidx)}},
        "exhaustive": False,
        "rule": "case i = 1-3 files drawn from Z1/Z3 by index arithmetic (clean, fixable and unfixable-failing mixes), scheme default/minimal by parity; "
        "distinct = cases in which at least one file was changed by fix",
    }


def case_files(i):
    n1 = U.size("Z1")
    docs = [U.doc("Z1", (i * 3) % n1), U.doc("Z3", i % 60000), U.doc("Z1", (i * 7 + 1) % n1), "# Title\n\nclean text\n"]
    k = i % 3 + 1
    sel = docs[:k]
    if i % 5 == 0:
        sel[-1] = docs[3]
    names = ["a.md", "b.md", "c.md"][: len(sel)]
    return dict(zip(names, sel)), ("minimal" if i % 2 else "default")


def witness_item(k):
    return {"key": "W:" + k["id"], "case": k["witness"]["case"]}


def replay_item(rp):
    return {"key": str(rp["case"]), "case": rp["detail"]["case"]}


def _case_id(x):
    """'K:12' / 'N:12' / 12 (older witnesses) -> (family, index)"""
    if isinstance(x, int):
        return "K", x
    x = str(x)
    if ":" in x:
        a, b = x.split(":")[:2]
        return a, int(b)
    return "K", int(x)


ENDINGS = ("crlf", "cr", "mixed", "lf", "crlf-no-final", "crlf")
ENTRIES = ("cli", "api-path", "api-string", "cli")


def n_case(i):
    files, _ = case_files(i * 13 + 5)
    if i % 3 == 0:  # make sure clean files are frequent: they are the ones that must not be touched
        files[sorted(files)[0]] = ["# Title\n\nclean text\n", "clean\n\n- a\n- b\n", "# T\n\n```text\ncode\n```\n\nline one\nline two\n"][(i // 3) % 3]
    ending = ENDINGS[i % len(ENDINGS)]
    out = {}
    for j, (n, d) in enumerate(files.items()):
        if ending in ("crlf", "crlf-no-final"):
            d = d.replace("\n", "\r\n")
            if ending == "crlf-no-final" and d.endswith("\r\n"):
                d = d[:-2]
        elif ending == "cr":
            d = d.replace("\n", "\r")
        elif ending == "mixed":
            parts = d.split("\n")
            d = "".join(x + ("\r\n" if k % 2 == 0 else "\n") for k, x in enumerate(parts[:-1])) + parts[-1]
        out[n] = d
    return out, ("minimal" if (i // 2) % 2 else "default"), ending, ENTRIES[(i // len(ENDINGS)) % len(ENTRIES)]


_AUDIT = []


def _hook(event, args):
    try:
        if event == "open":
            path, mode, flags = args
            if isinstance(mode, str) and any(c in mode for c in "wax+"):
                _AUDIT.append(("open-w", str(path)))
            elif mode is None and isinstance(flags, int) and flags & (os.O_WRONLY | os.O_RDWR | os.O_CREAT | os.O_TRUNC):
                _AUDIT.append(("open-w", str(path)))
        elif event in ("os.remove", "os.rename", "os.replace", "os.mkdir", "os.rmdir", "shutil.copyfile", "shutil.move", "os.truncate"):
            _AUDIT.append((event, str(args[0]), str(args[1]) if len(args) > 1 and event in ("os.rename", "shutil.copyfile", "shutil.move") else ""))
    except Exception:
        pass


def run_items(items, job):
    from vf import app

    sb = app.Sandbox(job["work"])
    sys.addaudithook(_hook)
    fixset = {r.upper() for r in app.fix_capable()}
    R = PL.Result()
    for it in items:
        if isinstance(it, dict):
            key, (fam, ci) = it["key"], _case_id(it["case"])
        else:
            key, (fam, ci) = it, _case_id(it)
        if fam == "N":
            _run_n(app, sb, fixset, R, key, ci)
            continue
        if fam == "T":
            files, scheme, tsets = t_case(ci)
        else:
            (files, scheme), tsets = case_files(ci), []
        R.evals += 1
        if any(d == "" for d in files.values()):
            pass
        sb.clear_files()
        paths = []
        for n, d in files.items():
            paths.append(sb.write(n, d))
        v = set()
        detail = {"case": ci if fam == "K" else f"{fam}:{ci}", "files": files, "scheme": scheme}
        sargs = ["--return-code-scheme", scheme] + tsets
        # ---- read-only invocations
        before = sb.snapshot()
        for label, fn in (
            ("scan", lambda: app.scan_files(paths, extra=sargs)),
            ("list", lambda: app.scan_files(["-l"] + paths, extra=sargs)),
            ("stdin", lambda: app.scan_text(files["a.md"], extra=sargs)),
            # input that cannot be written to the capture file: the scan fails, but still must leave nothing behind
            ("stdin-undecodable", lambda: app.scan_text(files["a.md"][:40] + " \udc80 x\n", extra=sargs)),
        ):
            if label == "stdin-undecodable" and ci % 4:
                continue
            del _AUDIT[:]
            o = fn()
            R.count("readonly_invocations")
            R.count("audit_events", len(_AUDIT))
            if o.watchdog:
                continue
            after = sb.snapshot()
            if after != before:
                v.add(f"{label}-modified-filesystem")
                detail[label + "_diff"] = sorted(set(after.items()) ^ set(before.items()))[:6]
            for ev in _AUDIT:
                if ev[0] == "open-w" and os.path.realpath(ev[1]).startswith(sb.cwd):
                    v.add(f"{label}-write-opened-input")
            if label == "scan":
                scan_o = o
        # which files have a fix-capable failure (per-file scans so that one bad file does not hide the rest)
        fixable = {}
        scan_ok = True
        for n, p in zip(files, paths):
            o = app.scan_files([p], extra=tsets)
            if o.watchdog or o.tokenization_error or o.plugin_error:
                scan_ok = False
                break
            fixable[n] = any(f[3] in fixset for f in o.failures)
        if not scan_ok:
            R.skip("scan-error(C01/C07)")
            if v:
                R.viol.append([key, ";".join(sorted(v)), detail])
            continue
        # ---- fix
        del _AUDIT[:]
        o = app.fix_files(paths, extra=sargs)
        R.count("fix_invocations")
        R.count("audit_events", len(_AUDIT))
        k = app.fix_error_kind(o)
        if k:
            R.skip("fix-" + k + "(C15)")
            if v:
                R.viol.append([key, ";".join(sorted(v)), detail])
            continue
        after = sb.snapshot()
        announced = {os.path.basename(p) for p in o.fixed}
        changed_any = False
        for n in files:
            R.count("files_judged")
            ch = after.get("cwd:" + n) != before.get("cwd:" + n)
            changed_any = changed_any or ch
            if ch and n not in announced:
                v.add("changed-but-not-announced")
            if n in announced and not ch:
                v.add("announced-but-bytes-identical")
            if ch and not fixable[n]:
                v.add("changed-without-fixable-failure")
        extra_files = [k2 for k2 in after if k2 not in before]
        if extra_files:
            v.add("fix-left-files-behind:" + ("tmp" if any(x.startswith("tmp:") for x in extra_files) else "cwd"))
            detail["left_behind"] = extra_files[:5]
        want = (0 if scheme == "minimal" else 3) if announced else 0
        if o.rc != want:
            v.add(f"exit-code:{scheme}:announced={bool(announced)}:rc={o.rc}")
        detail["announced"] = sorted(announced)
        detail["rc"] = o.rc
        if changed_any:
            R.distinct.add(PL.mix("C10", ci) & 0xFFFFFFFFFFFF)
        if v:
            detail["after"] = {n: sb.read(n).decode("utf-8", "replace") for n in files}
            R.viol.append([key, ";".join(sorted(v)), detail])
        elif len(R.samples) < 2 and changed_any:
            R.samples.append({"case": key, "files": {n: d[:80] for n, d in files.items()}, "announced": sorted(announced), "rc": o.rc, "scheme": scheme})
    return R.as_dict()


def _run_n(app, sb, fixset, R, key, ci):
    from pymarkdown.api import PyMarkdownApi, PyMarkdownApiException

    files, scheme, ending, entry = n_case(ci)
    R.evals += 1
    sb.clear_files()
    paths = [sb.write_bytes(n, d.encode("utf-8")) for n, d in files.items()]
    v = set()
    detail = {"case": f"N:{ci}", "files": files, "scheme": scheme, "line_endings": ending, "entry": entry}
    before = sb.snapshot()
    fixable = {}
    for n, p in zip(files, paths):
        o = app.scan_files([p])
        if o.watchdog or o.tokenization_error or o.plugin_error:
            R.skip("scan-error(C01/C07)")
            return
        fixable[n] = any(f[3] in fixset for f in o.failures)
    if sb.snapshot() != before:
        v.add("scan-modified-filesystem")
    R.see("line_endings", ending)
    R.see("entries", entry + "/" + scheme)
    tagp = f"{entry}:"
    if entry == "cli":
        o = app.fix_files(paths, extra=["--return-code-scheme", scheme])
        R.count("fix_invocations")
        k = app.fix_error_kind(o)
        if k:
            R.skip("fix-" + k + "(C15)")
            return
        announced = {os.path.basename(p) for p in o.fixed}
        want = (0 if scheme == "minimal" else 3) if announced else 0
        if o.rc != want:
            v.add(f"exit-code:{scheme}:announced={bool(announced)}:rc={o.rc}")
        tagp = ""
    elif entry == "api-path":
        try:
            a = PyMarkdownApi().log_critical_and_above().set_string_property("mode.return_code_scheme", scheme)
            res = app.guarded(lambda: a.fix_path(sb.cwd))
            R.count("fix_invocations")
            R.count("api_fix_calls")
        except PyMarkdownApiException:
            R.skip("fix-api-exception(C15)")
            return
        except app.ApiWatchdog:
            R.skip("fix-watchdog")
            return
        announced = {os.path.basename(p) for p in res.files_fixed}
    else:
        n0 = sorted(files)[0]
        text = files[n0]
        try:
            a = PyMarkdownApi().log_critical_and_above().set_string_property("mode.return_code_scheme", scheme)
            res = app.guarded(lambda: a.fix_string(text))
            R.count("fix_invocations")
            R.count("api_fix_calls")
        except PyMarkdownApiException:
            R.skip("fix-api-exception(C15)")
            return
        except app.ApiWatchdog:
            R.skip("fix-watchdog")
            return
        R.count("files_judged")
        norm = lambda t: t.replace("\r\n", "\n").replace("\r", "\n")  # noqa: E731  (no file: text-mode newline translation is not a change)
        ch = norm(res.fixed_file) != norm(text)
        if ch and not res.was_fixed:
            v.add("api-string:changed-but-not-announced")
        if res.was_fixed and not ch:
            v.add("api-string:announced-but-text-identical")
        if ch and not fixable[n0]:
            v.add("api-string:changed-without-fixable-failure")
        after = sb.snapshot()
        if after != before:
            v.add("api-string:modified-filesystem" + (":tmp" if any(x.startswith("tmp:") for x in set(after) ^ set(before)) else ""))
        if ch:
            R.distinct.add(PL.mix("C10N", ci) & 0xFFFFFFFFFFFF)
        if v:
            detail["fixed_file"] = res.fixed_file
            detail["was_fixed"] = bool(res.was_fixed)
            R.viol.append([key, ";".join(sorted(v)), detail])
        return
    after = sb.snapshot()
    changed_any = False
    for n in files:
        R.count("files_judged")
        ch = after.get("cwd:" + n) != before.get("cwd:" + n)
        changed_any = changed_any or ch
        if ch and n not in announced:
            v.add(tagp + "changed-but-not-announced")
        if n in announced and not ch:
            v.add(tagp + "announced-but-bytes-identical")
        if ch and not fixable[n]:
            v.add(tagp + "changed-without-fixable-failure")
    extra_files = [k2 for k2 in after if k2 not in before]
    if extra_files:
        v.add(tagp + "fix-left-files-behind:" + ("tmp" if any(x.startswith("tmp:") for x in extra_files) else "cwd"))
        detail["left_behind"] = extra_files[:5]
    detail["announced"] = sorted(announced)
    if changed_any:
        R.distinct.add(PL.mix("C10N", ci) & 0xFFFFFFFFFFFF)
    if v:
        detail["after"] = {n: sb.read(n).decode("utf-8", "replace") for n in files}
        R.viol.append([key, ";".join(sorted(v)), detail])
