"""C15 — failures are contained: errors are reported, never success, nothing is damaged.

Fault classes (each a frozen, enumerable universe):
  P  an exception raised by a rule plugin at its k-th callback invocation (every k; the plugin is a
     recording rule loaded with --add-plugin: scan-only, or fix-capable at level 0 / 2; sorting first or last)
  T  an exception inside the parser at its j-th invocation (failpoint on the coalesce step, so that the
     real wrapping into the tokenization error is exercised)
  U  a file that is not valid UTF-8 at each position of the run
  K  process death (SIGKILL injected with strace at the n-th matching system call on the target file:
     open for writing, each sendfile/write of the copy, rename, chmod) during the write-back of a fixed file
each x {scan, fix} x {with, without --continue-on-error} x a 3-file run.

Oracle: stderr names the failing file; exit code is the system-error code (1 in both schemes), never
0 or 3; with --continue-on-error after a plugin/parser fault every other file's reports and final
bytes equal those of a run without the failing file; every input file is byte-identical to its
original or to its completely fixed version (never empty, a prefix, or an intermediate state); the
private temp directory is empty afterwards (not judged after SIGKILL).
"""
import os
import shutil
import subprocess

from vf import env
from vf import universe as U
from vf.checks import parserlevel as PL

PROPERTY = "C15"
LEVEL = "fault_enumeration"
BASELINE = "C15"
REQUIRED_COUNTERS = ["invocations", "faults_injected", "faults_reached", "files_judged"]
ASSUMPTIONS = [
    "after SIGKILL no process can clean up: only the integrity of the target file is judged for class K",
    "strace -e inject delivers the signal at syscall entry (the call itself does not run)",
]

DOCS = [
    "# Title\n\nclean text\n",
    "#  Title\n\ntext   \n\n\n* item\n",          # several fixable rules (token + line level)
    "text\twith tab\n",                            # MD010 (line fix)
    "no final newline",                            # MD047
    "1. a\n1. b\n3. c\n",                          # MD029
    "# h\n\n```\ncode\n```\nafter\n",              # MD031
    "- a\n\n\n- b   \n",
    "> quote   \n> more\n",
    "* a\n+ b\n- c\n",
    "plain paragraph\nsecond line\n",
    "#  h1\n\n###  h3 \n",
    "<!-- pyml disable-next-line md009-->\ntext   \nmore   \n",
    # cross-file parser state: a definition in a failing file must not reach the files after it
    "[api]: /url 'title'\n[other]: /o\n\nuses [api] and [other]   \n",
    "see [ api ] and [api] and [other][] here   \nmore\ttext\n",
    # cross-file rule state: a rule interrupted inside a container must start the next file from its reset state
    "- a\n  - b\n    - c\n  - d\n- e\n",
    "> - q\n>   - r\n>\n> 1. s\n>    - t\n\ntext\n",
]
N_LEGACY_DOCS = 12
EXTRA_TRIPLES = [[12, 13, 0], [13, 12, 13], [12, 1, 13], [5, 12, 13], [8, 14, 15], [14, 15, 14], [6, 14, 8], [15, 14, 1]]
P_KINDS = [("scan-only", False, 0), ("fix0", True, 0), ("fix2", True, 2)]
MAX_K = 90
MAX_J = 9


def universe_hash():
    return U.content_hash()


def _cases():
    """Frozen list of case descriptors (order is part of the universe)."""
    out = []
    nd = N_LEGACY_DOCS
    for t in range(10 + len(EXTRA_TRIPLES)):
        triple = [(t * 5) % nd, (t * 5 + 1 + t % 3) % nd, (t * 7 + 2) % nd] if t < 10 else EXTRA_TRIPLES[t - 10]
        for mode in ("scan", "fix"):
            for coe in (False, True):
                for role in ("first", "last"):
                    for kind in range(len(P_KINDS)):
                        for k in range(1, MAX_K + 1):
                            out.append(("P", triple, mode, coe, role, kind, k))
                for j in range(1, MAX_J + 1):
                    out.append(("T", triple, mode, coe, j))
                for pos in range(3):
                    out.append(("U", triple, mode, coe, pos))
    return out


_CASES = None


def cases():
    global _CASES
    if _CASES is None:
        _CASES = _cases()
    return _CASES


def stdin_cases():
    return [("I", v, coe) for v in ("api-lone-surrogate", "cli-invalid-utf8", "cli-utf16") for coe in (False, True)]


K_CALLS = ["openat", "sendfile", "write", "rename", "chmod", "fchmod", "unlink", "copy_file_range"]


def kill_cases():
    out = []
    for d in (1, 2, 3, 4, 5, 6, 7, 10):
        for call in K_CALLS:
            for n in (1, 2, 3):
                out.append(("K", d, call, n))
    return out


def plan(tier, seed, complete=False):
    cs = cases()
    ks = kill_cases()
    if complete or tier == "thorough":
        idx = list(range(len(cs)))
        kidx = list(range(len(ks)))
    else:
        from vf.prng import R, mix

        r = R(mix("C15", seed))
        idx = r.sample(len(cs), 2600)
        # always include every T and U case (small)
        idx = sorted(set(idx) | {i for i, c in enumerate(cs) if c[0] in "TU"})
        kidx = R(mix("C15k", seed)).sample(len(ks), 64)
    items = [f"F:{i}" for i in idx] + [f"K:{i}" for i in kidx] + [f"I:{i}" for i in range(len(stdin_cases()))]
    return {
        "items": items,
        "zones": {"fault cases (P,T,U)": {"universe": len(cs), "run": len(idx)}, "kill points (K)": {"universe": len(ks), "run": len(kidx)}},
        "exhaustive": bool(complete or tier == "thorough"),
        "timeout": 1500 if tier == "quick" else 6 * 3600,
        "rule": "fault point x mode x continue-on-error x 3-file run (see module docstring); non-trivial/distinct = cases in which the injected fault was actually reached",
    }


def witness_item(k):
    return {"key": "W:" + k["id"], "case": k["witness"]["case"]}


def replay_item(rp):
    return {"key": str(rp["case"]), "case": rp["detail"]["case"]}


# -------------------------------------------------------------------------------------------------
_fail = {"n": 0, "at": None}
_wrapped = False


def _install_parser_failpoint():
    global _wrapped
    if _wrapped:
        return
    _wrapped = True
    from pymarkdown.coalesce.coalesce_processor import CoalesceProcessor

    orig = CoalesceProcessor.coalesce_text_blocks

    def failing(*a, **k):
        _fail["n"] += 1
        if _fail["at"] is not None and _fail["n"] == _fail["at"]:
            raise RuntimeError(f"injected parser fault at invocation #{_fail['n']}")
        return orig(*a, **k)

    CoalesceProcessor.coalesce_text_blocks = staticmethod(failing)


def _plug_args(reclog):
    a = []
    for role in ("first", "last", "off"):
        a += ["--add-plugin", reclog.plugin_path(role)]
    return a


def run_fault_case(ci, case, sb, app, reclog, R):
    kind, triple, mode, coe = case[0], case[1], case[2], case[3]
    names = ["a.md", "b.md", "c.md"]
    docs = [DOCS[i] for i in triple]
    raw = [d.encode("utf-8") for d in docs]
    bad_pos = None
    if kind == "U":
        bad_pos = case[4]
        raw[bad_pos] = b"\xff\xfe not utf-8 \x80\x81\n# x\n"
    scheme = "minimal" if ci % 2 else "default"
    base_args = ["--log-level", "CRITICAL", "--return-code-scheme", scheme]
    spec = {"first": {"enabled": False}, "last": {"enabled": False}, "off": {"enabled": False}}
    fault = None
    if kind == "P":
        role, pk, k = case[4], P_KINDS[case[5]], case[6]
        spec[role] = {"enabled": True, "fix": pk[1], "level": pk[2], "callbacks": "STLC"}
        fault = {"role": role, "at": k}
    plug = _plug_args(reclog)
    coe_args = (["--continue-on-error"] if coe else []) + (["--stack-trace"] if ci % 5 == 0 else [])

    def write_all(skip=None):
        sb.clear_files()
        ps = []
        for i, (n, b) in enumerate(zip(names, raw)):
            if i == skip:
                continue
            ps.append(sb.write_bytes(n, b))
        return ps

    def run(paths, with_fault):
        reclog.configure(spec, fault if with_fault else None)
        _fail["n"] = 0
        _fail["at"] = case[4] if (kind == "T" and with_fault) else None
        o = app.invoke(base_args + plug + coe_args + [mode] + paths)
        ev = list(reclog.EVENTS)
        _fail["at"] = None
        return o, ev

    # reference: same run without the fault (for class U: without the undecodable file)
    paths = write_all(skip=bad_pos)
    o_ref, _ = run(paths, False)
    R.count("invocations")
    if o_ref.watchdog or o_ref.plugin_error or o_ref.tokenization_error:
        R.skip("reference-run-error")
        return None
    fixed = {}
    for n in names:
        try:
            fixed[n] = sb.read(n)
        except OSError:
            fixed[n] = None
    ref_fail = {}
    for f in o_ref.failures:
        ref_fail.setdefault(os.path.basename(f[0]), []).append(f[1:])

    # the faulty run
    paths = write_all()
    o, ev = run(paths, True)
    R.count("invocations")
    R.count("faults_injected")
    if o.watchdog:
        R.skip("watchdog")
        return None
    # was the fault reached, and in which file?
    failing = None
    if kind == "U":
        failing = names[bad_pos]
        reached = True
    elif kind == "P":
        reached = bool(reclog.FAULT and reclog.FAULT.get("count", 0) >= fault["at"])
        # reclog.FAULT was replaced by configure() in later calls; recompute from events
        cnt = 0
        reached = False
        track = reclog.input_file_tracker(names)
        for e in ev:
            cur = track(e)
            if e[0] in ("S", "T", "L", "C") and e[1] == fault["role"]:
                cnt += 1
                if cnt == fault["at"]:
                    reached = True
                    failing = cur
                    break
    else:
        reached = _fail["n"] >= case[4]
        track = reclog.input_file_tracker(names)
        for e in ev:
            cur = track(e)
            if e[0] == "PARSE-ERR":
                failing = cur
                break
    v = set()
    detail = {"case": ci, "descr": list(case), "scheme": scheme, "rc": o.rc, "stderr": o.errtext[:500], "failing_file": failing}
    after = {n: sb.read(n) for n in names}
    tmp_left = sb.tmp_listing()
    if not reached:
        R.count("fault_not_reached")
        # nothing was injected: the run must equal the reference
        if o.rc != o_ref.rc or any(after[n] != fixed[n] for n in names):
            v.add("no-fault-but-differs-from-reference")
    else:
        R.count("faults_reached")
        R.distinct.add(PL.mix("C15", ci) & 0xFFFFFFFFFFFF)
        tag = f"{kind}:{mode}:{'coe' if coe else 'stop'}"
        if kind == "P":
            tag += ":" + P_KINDS[case[5]][0]
        if o.rc != 1:
            v.add(f"{tag}:exit-code-{o.rc}-not-system-error")
        if failing and failing not in o.errtext:
            v.add(f"{tag}:stderr-does-not-name-file")
        if not o.errtext.strip():
            v.add(f"{tag}:no-error-reported")
        for n in names:
            R.count("files_judged")
            if n == failing and kind == "U":
                if after[n] != raw[names.index(n)]:
                    v.add(f"{tag}:undecodable-file-modified")
                continue
            orig = raw[names.index(n)]
            if after[n] != orig and after[n] != fixed[n]:
                st = "empty" if after[n] == b"" else ("prefix" if orig.startswith(after[n]) or (fixed[n] or b"").startswith(after[n]) else "intermediate")
                v.add(f"{tag}:file-{st}-state")
                detail.setdefault("bytes", {})[n] = [orig.decode("utf-8", "replace"), (fixed[n] or b"").decode("utf-8", "replace"), after[n].decode("utf-8", "replace")]
        if tmp_left:
            v.add(f"{tag}:temp-files-left")
            detail["tmp_left"] = tmp_left[:5]
        if coe and kind in "PT" and failing:
            # every other file exactly as if the failing file were absent
            skip = names.index(failing)
            paths2 = write_all(skip=skip)
            o2, _ = run(paths2, False)
            R.count("invocations")
            if not (o2.watchdog or o2.plugin_error or o2.tokenization_error):
                want_fail = {}
                for f in o2.failures:
                    want_fail.setdefault(os.path.basename(f[0]), []).append(f[1:])
                got_fail = {}
                for f in o.failures:
                    got_fail.setdefault(os.path.basename(f[0]), []).append(f[1:])
                for n in names:
                    if n == failing:
                        continue
                    if got_fail.get(n, []) != want_fail.get(n, []):
                        v.add(f"{tag}:other-file-reports-differ")
                    if after[n] != sb.read(n):
                        v.add(f"{tag}:other-file-bytes-differ")
                    # an error reported for a file other than the failing one, which the run without the failing file does not report
                    if n in o.errtext and n not in o2.errtext:
                        v.add(f"{tag}:other-file-error-reported")
                        detail["stderr_without_failing_file"] = o2.errtext[:300]
    if v:
        return [";".join(sorted(v)), detail]
    if len(R.samples) < 2 and reached:
        R.samples.append({"case": f"F:{ci}", "descr": [str(x) for x in case], "rc": o.rc, "failing_file": failing, "stderr": o.errtext.strip()[:160]})
    return None


# -------------------------------------------------------------------------------------------------
def run_kill_case(ci, case, sb, R):
    _, d, call, n = case
    doc = DOCS[d]
    sb.clear_files()
    p = sb.write("k.md", doc)
    # reference: undisturbed fix in a fresh process
    e = env.child_env({"TMPDIR": sb.tmp})
    r0 = subprocess.run([env.PY, "-m", "pymarkdown", "--log-level", "CRITICAL", "fix", p], capture_output=True, env=e, cwd=sb.cwd, timeout=120)
    fixed = sb.read("k.md")
    orig = doc.encode("utf-8")
    if r0.returncode not in (0, 3):
        R.skip("kill-reference-error")
        return None
    if fixed == orig:
        R.skip("kill-nothing-to-fix")
        return None
    sb.clear_files()
    p = sb.write("k.md", doc)
    cmd = [
        "strace", "-f", "-qq", "-o", os.devnull, "-P", p, "-e", f"trace={call}", "-e", f"inject={call}:signal=SIGKILL:when={n}",
        env.PY, "-m", "pymarkdown", "--log-level", "CRITICAL", "fix", p,
    ]
    try:
        r = subprocess.run(cmd, capture_output=True, env=e, cwd=sb.cwd, timeout=180)
    except subprocess.TimeoutExpired:
        R.inconclusive.append(f"strace run timed out for {case}")
        return None
    R.count("invocations")
    R.count("faults_injected")
    killed = r.returncode in (-9, 137)
    if b"inject" in r.stderr and b"nvalid" in r.stderr:
        R.skip("strace-does-not-know-" + call)
        return None
    if not killed:
        R.count("fault_not_reached")
        R.see("kill_points_not_reached", f"{call}#{n}")
        return None
    R.count("faults_reached")
    R.count("kills_delivered")
    R.count("files_judged")
    R.see("kill_points_reached", f"{call}#{n}")
    R.distinct.add(PL.mix("C15K", call, n, d) & 0xFFFFFFFFFFFF)
    after = sb.read("k.md") if os.path.exists(p) else None
    leftovers = [x for x in os.listdir(sb.cwd) if x != "k.md"]
    if after is None:
        return [f"K:{call}:target-missing", {"case": ci, "descr": list(case)}]
    if after != orig and after != fixed:
        st = "empty" if after == b"" else ("prefix" if fixed.startswith(after) or orig.startswith(after) else "intermediate")
        return [f"K:{call}:file-{st}-state", {"case": ci, "descr": list(case), "orig": doc, "fixed": fixed.decode("utf-8", "replace"), "after": after.decode("utf-8", "replace"), "siblings": leftovers}]
    if len(R.samples) < 3:
        R.samples.append({"case": f"K:{ci}", "kill_at": f"{call}#{n}", "target_after": "original" if after == orig else "fully fixed", "siblings_left": leftovers})
    return None


def run_stdin_case(ci, case, sb, app, R):
    """scan-stdin fed with input that cannot be decoded: error reported, system-error code, nothing left behind."""
    _, variant, coe = case
    sb.clear_files()
    pre = ["--log-level", "CRITICAL"] + (["--continue-on-error"] if coe else [])
    if variant == "api-lone-surrogate":
        o = app.invoke(pre + ["scan-stdin"], string="# title\n\ntext \udc80 more\n")
        rc, err = o.rc, o.errtext
    else:
        data = b"\xff\xfe# t\n\xe9\x80\n" if variant == "cli-invalid-utf8" else "# title\n".encode("utf-16")
        rc, out, err = app.cli(pre + ["scan-stdin"], data, cwd=sb.cwd, extra_env={"TMPDIR": sb.tmp})
    R.count("invocations")
    R.count("faults_injected")
    R.count("faults_reached")
    R.count("files_judged")
    R.distinct.add(PL.mix("C15I", variant, coe) & 0xFFFFFFFFFFFF)
    v = set()
    tag = f"I:{variant}:{'coe' if coe else 'stop'}"
    if rc != 1:
        v.add(f"{tag}:exit-code-{rc}-not-system-error")
    if not err.strip():
        v.add(f"{tag}:no-error-reported")
    left = sb.tmp_listing()
    if left:
        v.add(f"{tag}:temp-files-left")
    if v:
        return [";".join(sorted(v)), {"case": f"I:{ci}", "descr": list(case), "rc": rc, "stderr": err[:300], "tmp_left": left[:5]}]
    return None


def run_items(items, job):
    from vf import app, reclog

    reclog.install_wrappers()
    _install_parser_failpoint()
    sb = app.Sandbox(job["work"])
    R = PL.Result()
    for it in items:
        if isinstance(it, dict):
            key, spec = it["key"], it["case"]
            cls, ci = spec.split(":")
            ci = int(ci)
        else:
            key = it
            cls, ci = it.split(":")
            ci = int(ci)
        R.evals += 1
        if cls == "F":
            res = run_fault_case(ci, cases()[ci], sb, app, reclog, R)
        elif cls == "I":
            res = run_stdin_case(ci, stdin_cases()[ci], sb, app, R)
        else:
            res = run_kill_case(ci, kill_cases()[ci], sb, R)
        if res:
            res[1]["case"] = f"{cls}:{ci}"
            R.viol.append([key, res[0], res[1]])
    reclog.configure({})
    return R.as_dict()
