"""C20 — extensions are inert unless enabled and needed; front matter only shifts lines.

Differential between configurations of the real parser:
  (1) for each extension e and each document without e's trigger syntax (conservative syntactic
      predicate): serialized tokens and HTML with e enabled == with every extension disabled; the same
      with all six enabled for documents with no trigger at all
  (2) with every extension disabled, documents sprayed with extension syntax still agree with the plain
      CommonMark reference (the C03 comparator)
  (3) front matter enabled: tokens(fm + rest) == [front-matter token] + tokens(rest) shifted by the
      length of the block; an invalid block parses exactly as with the extension disabled
"""
import re

from vf import universe as U
from vf.checks import parserlevel as PL
from vf.prng import R as PR

PROPERTY = "C20"
LEVEL = "exploration"
BASELINE = "C20"
REQUIRED_COUNTERS = ["documents", "inertness_comparisons", "front_matter_comparisons", "disabled_vs_reference_comparisons"]
ASSUMPTIONS = [
    "trigger predicates are syntactic over-approximations (a document is only judged for an extension when it certainly lacks its syntax)",
    "documents that do not parse with every extension off are skipped (C01), counted",
]
N_Z1 = 5097
N_Z3 = 30000
N_SPRAY = 20000
N_Z2 = 60000   # tiny fragment documents (raw "<", "<div>", "[", "~"-free ...)
N_Z5 = 30000   # inline soup
N_CASES = N_Z1 + N_Z3 + N_SPRAY + N_Z2 + N_Z5

TRIG = {
    "fm": lambda s: s.lstrip(" ").startswith("---"),
    "st": lambda s: "~" in s,
    "tl": lambda s: re.search(r"\[[ xX]\]", s) is not None,
    "ea": lambda s: re.search(r"www\.|https?:|ftp:|mailto:|xmpp:|@", s, re.I) is not None,
    "dr": lambda s: re.search(r"<\s*/?\s*(title|textarea|style|xmp|iframe|noembed|noframes|script|plaintext)", s, re.I) is not None,
    "pr": lambda s: "pyml" in s.lower(),
}
SPRAYS = [
    "~~struck~~", "- [ ] task", "- [x] done", "www.example.com", "http://example.com/path", "user@example.com", "<title>t</title>",
    "<script>x</script>", "<!-- pyml disable-next-line md009-->", "~single~", "text ~~a~~ and ~~b~~", "* [ ] star task", "[ ] not a task",
    "<xmp>", "mailto:me@example.com", "https://a.b/c?d=e&f=g", "~~~", "1. [X] ordered task", "<iframe src=\"x\">", "ftp://host/file",
    # raw HTML blocks without any disallowed tag (lines ending in '<', split tags): the disallow filter must leave them alone
    "<div>\nif (a <\n b)\n</div>", "<pre>\nx <\ny\n</pre>", "<!-- a <\n b -->", "<div> <", "<p\nclass='c'>", "<table><tr><\ntd>x</td></tr></table>",
]
FM_VALID = ["---\ntitle: doc\n---\n", "---\na: 1\nb: two\n---\n", "---\nlist:\n  - x\n  - y\n---\n", "---  \nk: v\n---  \n",
            # mappings whose values are falsy are as valid as any other
            "---\ndraft: false\n---\n", "---\ncount: 0\nname: ''\n---\n", "---\nk: v # comment\n---\n"]
# (4) a switched-off extension must not even look at its own settings: (extension, leftover settings)
LEFTOVER = [
    ("dr", {"change_tag_names": "custom,script"}), ("dr", {"change_tag_names": "+custom,-script"}), ("dr", {"change_tag_names": 1}), ("dr", {"change_tag_names": ""}),
    ("fm", {"allow_blank_lines": True}), ("fm", {"allow_blank_lines": "yes"}), ("fm", {"allow_blank_lines": 3}),
    ("st", {"unknown_setting": 1}), ("ea", {"unknown_setting": "x"}), ("tl", {"unknown_setting": True}), ("pr", {"unknown_setting": 0}),
]
CF_DOCS = ["---\ntitle: x\n---\n\n<script>x</script>\n\n~~s~~ www.example.com\n- [ ] task\n", "<title>t</title>\n\ntext   \n", "---\n\nk: v\n---\n#  h\n", "plain text\n"]
N_CF = len(LEFTOVER) * 2 * len(CF_DOCS)
FM_INVALID = ["---\njust some text\n---\n", "---\nk: v\n", "---\n\nk: v\n---\n", "---\nk: [unclosed\n---\n", "----\nk: v\n----\n", " ---\nk: v\n ---\n",
              # valid YAML that is not a mapping of fields is not front matter (an empty mapping is left out: the
              # documentation asks for at least one field, the code accepts it)
              "---\n42\n---\n", "---\ntrue\n---\n", "---\n- a\n- b\n---\n", "---\n[]\n---\n", "---\n3.5\n---\n"]


# (5) history family (cases HS:i): an extension enabled with its defaults must parse a document the same way before and
# after a run in the same process that configured it differently (multi-entry settings, no-op entries first)
HS_SETTINGS = [
    ("dr", {"change_tag_names": "+script,+div"}), ("dr", {"change_tag_names": "+title,-script,+span"}), ("dr", {"change_tag_names": "-script,-title"}),
    ("dr", {"change_tag_names": "+div"}), ("dr", {"change_tag_names": "+style,+style,+b"}), ("dr", {"change_tag_names": "-xmp,+xmp,+textarea,-textarea,+p"}),
]
HS_DOCS = ["<div>x</div>\n\ntext <div> <span> <b>\n", "<script>x</script>\n\n<title>t</title> a <span> <p>\n", "<style>\n</style>\n\ntext <b>x</b> <textarea> <xmp>\n"]
N_HS = len(HS_SETTINGS) * len(HS_DOCS)


def universe_hash():
    return PL.hash_ab()


def plan(tier, seed, complete=False):
    if complete or tier == "thorough":
        idx = list(range(N_CASES))
    else:
        from vf.prng import R, mix

        r = R(mix("C20", seed))
        idx = sorted(set(r.sample(N_Z1, 1200)) | {N_Z1 + k for k in r.sample(N_Z3, 2000)} | {N_Z1 + N_Z3 + k for k in r.sample(N_SPRAY + N_Z2 + N_Z5, 6000)})
    return {
        "items": [f"X:{i}" for i in idx] + [f"CF:{i}" for i in range(N_CF)] + [f"HS:{i}" for i in range(N_HS)],
        "zones": {"corpus": {"universe": N_Z1}, "calm trees": {"universe": N_Z3}, "extension-syntax spray": {"universe": N_SPRAY}, "run": {"cases": len(idx)}},
        "exhaustive": False,
        "rule": "documents (raw corpus, calm trees, calm trees sprayed with every extension's syntax, front-matter blocks valid/invalid prepended by index) x "
        "{each extension alone, all six, none}; distinct = distinct (token-kind sequence, set of triggers present)",
    }


def witness_item(k):
    if str(k["witness"].get("case", "")).startswith("HS:"):
        return {"key": "W:" + k["id"], "hs": int(k["witness"]["case"].split(":")[1])}
    if str(k["witness"].get("case", "")).startswith("CF:"):
        return {"key": "W:" + k["id"], "cf": int(k["witness"]["case"].split(":")[1])}
    return {"key": "W:" + k["id"], "doc": k["witness"]["doc"], "fm": k["witness"].get("fm")}


def replay_item(rp):
    if str(rp["case"]).startswith("HS:"):
        return {"key": str(rp["case"]), "hs": int(str(rp["case"]).split(":")[1])}
    if str(rp["case"]).startswith("CF:"):
        return {"key": str(rp["case"]), "cf": int(str(rp["case"]).split(":")[1])}
    return {"key": str(rp["case"]), "doc": rp["detail"]["doc"], "fm": rp["detail"].get("fm")}


def case_doc(i):
    """-> (document, front-matter block or None)"""
    if i < N_Z1:
        return U.doc("Z1", i), None
    if i < N_Z1 + N_Z3:
        j = i - N_Z1
        d = U.doc("Z3", j)
        if j % 5 == 0:
            r = PR(0x20000000 + j)
            pool = FM_VALID if j % 10 == 0 else FM_INVALID
            return d, pool[r.below(len(pool))]
        return d, None
    if i >= N_Z1 + N_Z3 + N_SPRAY + N_Z2:
        return U.doc("Z5", ((i - N_Z1 - N_Z3 - N_SPRAY - N_Z2) * 15) % U.size("Z5")), None
    if i >= N_Z1 + N_Z3 + N_SPRAY:
        return U.doc("Z2", ((i - N_Z1 - N_Z3 - N_SPRAY) * 9) % 532000), None
    j = i - N_Z1 - N_Z3
    r = PR(0x20100000 + j)
    # small documents full of extension syntax (small, so that unrelated container-nesting defects do not drown the comparison)
    plain = ["text", "# heading", "- item", "> quote", "", "1. one", "para *emph* `code`", "    indented"]
    lines = []
    for _ in range(r.randint(1, 4)):
        k = r.random()
        if k < 0.55:
            lines.append(r.choice(SPRAYS))
        elif k < 0.75:
            lines.append(r.choice(["", "- ", "> ", "1. ", "  "]) + r.choice(SPRAYS))
        elif k < 0.85:
            lines.append(r.choice(plain) + " " + r.choice(SPRAYS))
        else:
            lines.append(r.choice(plain))
    return "\n".join(lines) + ("\n" if r.chance(0.8) else ""), None


def _ser(pm, T, doc):
    kind, toks, _ = pm.parse(T, doc, cpu_s=4)
    if kind != "tokens":
        return None, None, None
    try:
        html = pm.to_html(toks)
    except Exception as e:
        html = "RENDER-ERROR:" + pm.exc_signature(e)
    return [str(t) for t in toks], html, toks


def run_items(items, job):
    from vf import htmlcmp, pm
    from vf.checks.c11 import _tok_key

    T_off = pm.make_tokenizer(pm.ext_config(set()))
    T_one = {k: pm.make_tokenizer(pm.ext_config({k})) for k in pm.EXTENSIONS}
    T_all = pm.make_tokenizer(pm.ext_config(set(pm.EXTENSIONS)))
    R = PL.Result()
    for it in items:
        if (isinstance(it, str) and it.startswith("HS:")) or (isinstance(it, dict) and it.get("hs") is not None):
            _run_history(pm, R, it if isinstance(it, str) else it["key"], int(it.split(":")[1]) if isinstance(it, str) else int(it["hs"]))
            continue
        if (isinstance(it, str) and it.startswith("CF:")) or (isinstance(it, dict) and it.get("cf") is not None):
            _run_leftover(pm, R, it if isinstance(it, str) else it["key"], int(it.split(":")[1]) if isinstance(it, str) else int(it["cf"]))
            continue
        if isinstance(it, dict):
            key, doc, fm = it["key"], it["doc"], it.get("fm")
            spray_zone = len(doc) < 200
        else:
            key = it
            doc, fm = case_doc(int(it.split(":")[1]))
            spray_zone = N_Z1 + N_Z3 <= int(it.split(":")[1]) < N_Z1 + N_Z3 + N_SPRAY
        R.evals += 1
        base_s, base_h, base_t = _ser(pm, T_off, doc)
        if base_s is None:
            R.skip("does-not-parse(C01)")
            continue
        R.count("documents")
        v = set()
        detail = {"doc": doc, "fm": fm}
        trig = {k for k in pm.EXTENSIONS if TRIG[k](doc)}
        for k in pm.EXTENSIONS:
            if k in trig:
                # not judged, but still parsed: the tokenizer instance then carries the history a
                # multi-file run has (a document with this extension's syntax came before)
                _ser(pm, T_one[k], doc)
                continue
            s, h, _ = _ser(pm, T_one[k], doc)
            R.count("inertness_comparisons")
            if s is None:
                v.add(f"enabling-{k}-breaks-parse")
            elif s != base_s:
                v.add(f"enabling-{k}-changes-tokens-without-trigger")
                detail.setdefault("diff", {})[k] = [x for x in s if x not in base_s][:5]
            elif h != base_h:
                v.add(f"enabling-{k}-changes-html-without-trigger")
        if trig:
            _ser(pm, T_all, doc)
        if not trig:
            s, h, _ = _ser(pm, T_all, doc)
            R.count("inertness_comparisons")
            if s is None:
                v.add("enabling-all-breaks-parse")
            elif s != base_s or h != base_h:
                v.add("enabling-all-changes-parse-without-trigger")
        if spray_zone and trig - {"fm", "pr"}:
            # (2) disabled extensions: plain CommonMark on documents full of their syntax
            verdict, sig = htmlcmp.compare(doc, base_h) if not base_h.startswith("RENDER-ERROR") else ("differ", base_h)
            if verdict != "abstain":
                R.count("disabled_vs_reference_comparisons")
                if verdict == "differ":
                    v.add("disabled-extensions-not-plain-commonmark:" + sig)
                    detail["pymarkdown_html"] = base_h[:400]
                    detail["reference_html"] = htmlcmp.reference_html(doc)[:400]
        if fm is not None and not doc.startswith("---"):
            full = fm + doc
            n_fm = fm.count("\n")
            s_on, h_on, t_on = _ser(pm, T_one["fm"], full)
            R.count("front_matter_comparisons")
            valid = fm in FM_VALID
            if s_on is None:
                v.add("front-matter:" + ("valid" if valid else "invalid") + "-block-breaks-parse")
            elif valid:
                if not t_on or t_on[0].token_name != "front-matter":
                    v.add("front-matter:valid-block-not-recognised")
                else:
                    a = [_tok_key(t) for t in t_on[1:]]
                    b = []
                    for t in base_t:
                        kk = _tok_key(t)
                        ln = kk[1] + n_fm if kk[1] else kk[1]
                        ex = (kk[4][0] + n_fm, kk[4][1]) if kk[4] else None
                        b.append((kk[0], ln, kk[2], kk[3], ex))
                    if a != b:
                        if [x[0] for x in a] != [x[0] for x in b]:
                            v.add("front-matter:rest-parses-differently")
                        elif [(x[0], x[2], x[3]) for x in a] != [(x[0], x[2], x[3]) for x in b]:
                            v.add("front-matter:rest-content-differs")
                        else:
                            v.add("front-matter:positions-not-shifted-by-block-length:" + ",".join(sorted({x[0] for x, y in zip(a, b) if x != y})[:4]))
                        detail["fm_tokens_got"] = [str(x) for x in a][:30]
                        detail["fm_tokens_expected"] = [str(x) for x in b][:30]
            else:
                s_off, h_off, _ = _ser(pm, T_off, full)
                if s_off is not None and (s_on != s_off or h_on != h_off):
                    v.add("front-matter:invalid-block-differs-from-extension-off")
                    detail["fm_tokens_got"] = s_on[:20]
                    detail["fm_tokens_expected"] = s_off[:20]
        R.distinct.add(PL.mix(PL.structure_hash(base_t), ",".join(sorted(trig))) & 0xFFFFFFFFFFFF)
        for k in trig:
            R.see("triggers_present", k)
        if v:
            R.viol.append([key, ";".join(sorted(v)), detail])
        elif len(R.samples) < 2 and (trig or fm):
            R.samples.append({"case": key, "doc": doc[:160], "front_matter": fm, "triggers_present": sorted(trig)})
    return R.as_dict()


def _run_leftover(pm, R, key, ci):
    """(4): every extension off, one of them with settings left over (valid, invalid, wrongly typed), lenient and strict."""
    from pymarkdown.api import PyMarkdownApi, PyMarkdownApiException

    li, rest = ci % len(LEFTOVER), ci // len(LEFTOVER)
    strict, di = rest % 2, rest // 2
    ext, settings = LEFTOVER[li]
    doc = CF_DOCS[di % len(CF_DOCS)]
    R.evals += 1
    name = pm.EXTENSIONS[ext]
    v = set()
    detail = {"case": f"CF:{ci}", "doc": doc, "extension": name, "leftover_settings": settings, "strict": bool(strict)}
    T_off = pm.make_tokenizer(pm.ext_config(set()))
    base_s, base_h, _ = _ser(pm, T_off, doc)
    cfg = pm.ext_config(set())
    cfg["extensions"][name].update(settings)
    R.count("leftover_setting_cases")
    try:
        T = pm.make_tokenizer(cfg)
        s2, h2, _ = _ser(pm, T, doc)
        R.count("inertness_comparisons")
        if (s2, h2) != (base_s, base_h):
            v.add("disabled-extension-with-settings-changes-parse:" + ext)
    except Exception as e:  # noqa: BLE001
        v.add("disabled-extension-reads-its-settings:parser:" + ext + ":" + type(e).__name__)
        detail["parser_error"] = str(e)[:200]

    def api(with_settings):
        a = PyMarkdownApi().log_critical_and_above()
        for k2, n2 in pm.EXTENSIONS.items():
            a = a.set_boolean_property(f"extensions.{n2}.enabled", False)
        if strict:
            a = a.enable_strict_configuration()
        if with_settings:
            for sk, sv in settings.items():
                prop = f"extensions.{name}.{sk}"
                a = a.set_boolean_property(prop, sv) if isinstance(sv, bool) else a.set_integer_property(prop, sv) if isinstance(sv, int) else a.set_string_property(prop, sv)
        return a

    def scan(a):
        try:
            from vf import app as _app

            r = _app.guarded(lambda: a.scan_string(doc))
            return sorted((f.line_number, f.column_number, f.rule_id) for f in r.scan_failures)
        except PyMarkdownApiException as e:
            return "EXC:" + str(e)[:120]
        except Exception as e:  # noqa: BLE001  (watchdog: the same for both sides or inconclusive)
            return "ERR:" + type(e).__name__

    want, got = scan(api(False)), scan(api(True))
    R.count("documents")
    if want != got:
        v.add("disabled-extension-reads-its-settings:scan:" + ext + (":strict" if strict else ""))
        detail["scan_without_settings"] = want if isinstance(want, str) else want[:8]
        detail["scan_with_settings"] = got if isinstance(got, str) else got[:8]
    R.distinct.add(PL.mix("CF", ci) & 0xFFFFFFFFFFFF)
    if v:
        R.viol.append([key, ";".join(sorted(v)), detail])


def _run_history(pm, R, key, ci):
    """(5): default-enabled run, then a run with other settings, then the default-enabled run again: first == third."""
    from pymarkdown.api import PyMarkdownApi, PyMarkdownApiException

    ext, settings = HS_SETTINGS[ci % len(HS_SETTINGS)]
    doc = HS_DOCS[ci // len(HS_SETTINGS)]
    name = pm.EXTENSIONS[ext]
    R.evals += 1
    detail = {"case": f"HS:{ci}", "doc": doc, "extension": name, "settings_of_the_run_in_between": settings}

    def observe(extra):
        cfg = pm.ext_config({ext})
        cfg["extensions"][name].update(extra)
        try:
            s, h, _ = _ser(pm, pm.make_tokenizer(cfg), doc)
        except Exception as e:  # noqa: BLE001
            s, h = "ERR:" + type(e).__name__, None
        a = PyMarkdownApi().log_critical_and_above().set_boolean_property(f"extensions.{name}.enabled", True)
        for sk, sv in extra.items():
            a = a.set_string_property(f"extensions.{name}.{sk}", sv)
        try:
            from vf import app as _app

            r = _app.guarded(lambda: a.scan_string(doc))
            f = sorted((x.line_number, x.column_number, x.rule_id) for x in r.scan_failures)
        except PyMarkdownApiException as e:
            f = "EXC:" + str(e)[:120]
        except Exception as e:  # noqa: BLE001
            f = "ERR:" + type(e).__name__
        return s, h, f

    first = observe({})
    between = observe(settings)
    third = observe({})
    R.count("history_comparisons")
    R.count("documents")
    R.distinct.add(PL.mix("HS", ci) & 0xFFFFFFFFFFFF)
    if between != first:
        R.count("history_runs_in_between_that_differ_from_default")
    if third != first:
        detail["first"], detail["third"] = [str(x)[:300] for x in first], [str(x)[:300] for x in third]
        R.viol.append([key, "extension-settings-of-an-earlier-run-leak:" + ext, detail])
