"""Common loop of the token-level checks C02..C05: parse each document with the real parser
(C01 failures are skipped and counted: the properties are stated over documents that parse)."""
from vf.checks import parserlevel as PL


def fix_internal_parses(job, doc, on_parse):
    """Run the real `fix` on doc and return [(source text, tokens)] of every parse the application
    performed on an *intermediate* document (the re-parses of partially fixed text: the place where fix
    mode depends on the parser-level properties, and which no unit test observes)."""
    from vf import app, reclog

    reclog.install_wrappers()
    sb = job.setdefault("_sandbox", None) or app.Sandbox(job["work"])
    job["_sandbox"] = sb
    sb.clear_files()
    p = sb.write_bytes("fx.md", doc.encode("utf-8"))
    reclog.configure({})
    seen = [0]

    def cb(text, toks):
        if text is not None and text != doc:
            seen[0] += 1
            try:
                on_parse(text, toks)  # record-and-return: a monitor never raises into the run it observes
            except Exception:
                pass

    reclog.ON_PARSE = cb
    try:
        o = app.fix_files([p])
    finally:
        reclog.ON_PARSE = None
        reclog.configure({})
    if o.watchdog:
        return None
    return seen[0]


def drive(items, cfg, monitor, see_tokens=True, cpu_s=4.0, job=None):
    """monitor(R, key, doc, tokens) appends violations / counters to R.
    Items 'FX:<universe key>' apply the same monitor to the internal parses of a fix run on that document."""
    from vf import pm

    tok = pm.make_tokenizer(cfg)
    R = PL.Result()
    for it in items:
        if isinstance(it, str) and it.startswith("FX:"):
            doc = PL.U.case_doc(it[3:])
            R.evals += 1
            before = len(R.viol)

            def on_parse(text, toks, _it=it):
                R.count("internal_parses_monitored")
                monitor(R, pm, _it, text, toks)

            n_seen = fix_internal_parses(job, doc, on_parse) if doc.strip() else 0
            if n_seen is None:
                del R.viol[before:]
                R.skip("fix-watchdog")
                continue
            R.count("fix_runs_observed")
            # all violations of one fix run are one case: merge their atoms under the FX key
            if len(R.viol) > before:
                atoms = sorted({"fix-internal:" + a for v in R.viol[before:] for a in str(v[1]).split(";")})
                detail = {"doc": doc, "intermediate": R.viol[before][2]}
                del R.viol[before:]
                R.viol.append([it, ";".join(atoms), detail])
            continue
        key, doc = PL.item_doc(it)
        kind, val, _ = pm.parse(tok, doc, cpu_s=cpu_s)
        R.evals += 1
        if kind == "watchdog":
            R.skip("parse-watchdog")
            continue
        if kind != "tokens":
            R.skip("does-not-parse(C01)")
            continue
        R.count("parsed")
        if see_tokens:
            R.distinct.add(PL.structure_hash(val))
            for t in val:
                R.see("token_kinds", t.token_name)
            PL.nesting_signatures(val, R.observed.setdefault("container_nesting", set()))
        monitor(R, pm, key, doc, val)
    return R.as_dict()
