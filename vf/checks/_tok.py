"""Common loop of the token-level checks C02..C05: parse each document with the real parser
(C01 failures are skipped and counted: the properties are stated over documents that parse)."""
from vf.checks import parserlevel as PL


def drive(items, cfg, monitor, see_tokens=True, cpu_s=4.0):
    """monitor(R, key, doc, tokens) appends violations / counters to R."""
    from vf import pm

    tok = pm.make_tokenizer(cfg)
    R = PL.Result()
    for it in items:
        key, doc = PL.item_doc(it)
        kind, val, _ = pm.parse(tok, doc, cpu_s=cpu_s)
        R.evals += 1
        if kind == "watchdog":
            R.skip("parse-watchdog")
            continue
        if kind != "tokens":
            R.skip("does-not-parse(C01)")
            continue
        R.count("parsed")
        if see_tokens:
            R.distinct.add(PL.structure_hash(val))
            for t in val:
                R.see("token_kinds", t.token_name)
            PL.nesting_signatures(val, R.observed.setdefault("container_nesting", set()))
        monitor(R, pm, key, doc, val)
    return R.as_dict()
