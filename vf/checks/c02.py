"""C02 — the token stream is lossless: Markdown regenerated from the tokens equals the source.

Events: (source, tokens) of every successful parse; output or exception of a fresh
TransformToMarkdown on those tokens.  Oracle: output == source, character for character.
"""
from vf import universe as U
from vf import monitors
from vf.checks import _tok
from vf.checks import parserlevel as PL

PROPERTY = "C02"
LEVEL = "exploration"
SHRINKABLE = True  # violating documents are minimised (ddmin) before the replay file is written
BASELINE = "C02"
REQUIRED_COUNTERS = ["parsed", "roundtrip_evaluated"]
ASSUMPTIONS = ["documents that do not parse are C01's concern and are skipped (counted)", "frozen universes Z1..Z4"]


def universe_hash():
    return U.content_hash()


def plan(tier, seed, complete=False):
    items, zinfo = PL.plan_docs(tier, seed, complete, check="C02", fx=700)
    return {
        "items": items, "zones": zinfo, "exhaustive": False,
        "rule": "documents of the frozen universes Z1 (all), Z2/Z3/Z4 (seed-chosen indices; thorough: all); identity oracle "
        "regenerate(parse(d)) == d; distinct = distinct token-kind sequences of parsed documents",
    }


witness_item = PL.witness_item
replay_item = PL.replay_item


def _mon(R, pm, key, doc, toks):
    before = [str(t) for t in toks]
    try:
        out = pm.to_markdown(toks)
    except pm.CpuWatchdog:
        raise
    except Exception as e:
        R.count("roundtrip_evaluated")
        R.viol.append([key, "exc:" + pm.exc_signature(e), {"doc": doc, "error": pm.exc_text(e)}])
        return
    R.count("roundtrip_evaluated")
    if out != doc:
        R.viol.append([key, monitors.c02_diff_class(doc, out), {"doc": doc, "regenerated": out}])
    elif len(R.samples) < 2:
        R.samples.append({"case": key, "doc": doc[:200], "roundtrip": "identical", "tokens": len(toks)})
    if [str(t) for t in toks] != before:
        R.count("regenerator_mutated_tokens")


def run_items(items, job):
    return _tok.drive(items, None, _mon, job=job)
