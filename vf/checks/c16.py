"""C16 — all entry points agree: file scan, stdin scan and the Python API; diagnostics are inert.

Per document (with index-chosen line-ending variant): failures (line, column, rule, description,
extra) from in-process file scan, in-process scan-stdin, PyMarkdownApi.scan_string / scan_path and
(index-chosen subset) real CLI subprocesses for file and stdin; fixed text from `fix` of a file vs
PyMarkdownApi.fix_string; and two index-chosen diagnostic settings (log level x --stack-trace x
--log-file) whose stdout/exit code/fixed bytes must equal the plain run.
"""
import os
import re

from vf import universe as U
from vf.checks import parserlevel as PL

PROPERTY = "C16"
LEVEL = "exploration"
BASELINE = "C16"
REQUIRED_COUNTERS = ["documents_compared", "api_calls", "cli_processes", "diagnostic_variants"]
ASSUMPTIONS = [
    "documents that do not tokenize or crash a rule are skipped (C01/C07), counted",
    "API argument errors (empty string) are API contract, not in scope",
]
LIMIT = {"Z1": 10194, "Z3": 10000, "Z4": 4000, "Z7": 10000, "Z11": 4000, "Z12": 10000}
_LINE = re.compile(r"^(.*?):(\d+):(\d+): ([A-Z0-9]+): (.*)$")
DIAG = [
    ["--log-level", "WARNING"], ["--log-level", "ERROR"], ["--stack-trace"], ["--stack-trace", "--log-level", "WARNING"],
    ["--log-file", "LOG"], ["--log-file", "LOG", "--log-level", "ERROR", "--stack-trace"], ["--log-level", "CRITICAL", "--stack-trace"],
]
# verbose levels write megabytes per document (seconds of logging each): exercised on every 40th document only
DIAG_VERBOSE = [["--log-level", "DEBUG"], ["--log-level", "INFO"], ["--log-file", "LOG", "--log-level", "DEBUG", "--stack-trace"], ["--stack-trace", "--log-level", "INFO"]]


def universe_hash():
    return PL.hash_ab()


def plan(tier, seed, complete=False):
    items, zinfo = PL.plan_docs(tier, seed, complete, quick={"Z1": 600, "Z3": 400, "Z4": 150, "Z7": 350, "Z11": 120, "Z12": 280}, z1_all=False, limit=LIMIT, zones=("Z1", "Z3", "Z4", "Z7", "Z11", "Z12"), force_b=True, check="C16")
    return {
        "items": items, "zones": zinfo, "exhaustive": False,
        "rule": "documents of the frozen universes with an index-chosen line-ending variant (LF, CR-LF, no final newline, non-ASCII suffix) x entry points "
        "{file, stdin, scan_string, scan_path, CLI file, CLI stdin, fix file, fix_string} x 2 index-chosen diagnostic settings; distinct = documents with at least one failure",
    }


witness_item = PL.witness_item
replay_item = PL.replay_item


def variant(doc, idx):
    m = idx % 6
    if m == 1:
        return doc.replace("\n", "\r\n"), "crlf"
    if m == 2:
        return (doc[:-1] if doc.endswith("\n") else doc + "\n"), "newline-toggled"
    if m == 3:
        return doc + "é中\n", "non-ascii"
    if m == 4 and idx % 12 == 4:
        return doc.replace("\n", "\r"), "lone-cr"
    if m == 5:
        # characters that str.splitlines() treats as line boundaries but a text file reader does not
        ch = ["\x0b", "\x0c", "\x1c", "\x1d", "\x1e", "\x85", "\u2028", "\u2029"][(idx // 6) % 8]
        k = len(doc) // 2
        return doc[:k] + ch + doc[k:], "odd-line-break-char"
    return doc, "as-is"


def _parse_cli(out):
    got = []
    for line in out.split("\n"):
        m = _LINE.match(line)
        if m:
            got.append((int(m.group(2)), int(m.group(3)), m.group(4), m.group(5)))
    return got


def run_items(items, job):
    from pymarkdown.api import PyMarkdownApi, PyMarkdownApiException

    from vf import app

    sb = app.Sandbox(job["work"])
    # verbose log levels write to stderr: keep the worker log small
    dn = os.open(os.devnull, os.O_WRONLY)
    saved_err = os.dup(2)
    os.dup2(dn, 2)
    os.dup2(dn, 1)  # the API's verbose log levels write to the process's standard output
    try:
        return _run(items, job, sb, app, PyMarkdownApi, PyMarkdownApiException)
    except BaseException:
        os.dup2(saved_err, 2)  # let the traceback of a harness failure reach the shard log
        raise


def _run(items, job, sb, app, PyMarkdownApi, PyMarkdownApiException):
    R = PL.Result()
    for it in items:
        key, doc0 = PL.item_doc(it)
        idx = PL.item_index(it, key)
        doc, vname = variant(doc0, idx)
        R.evals += 1
        if doc.strip() == "":
            R.skip("blank-document")
            continue
        sb.clear_files()
        p = sb.write_bytes("d.md", doc.encode("utf-8"))
        v = set()
        detail = {"doc": doc, "variant": vname}
        # rule selection expressible both on the command line and through the API (every third document)
        sel_e, sel_d = (["md002", "md006"], ["md041"]) if idx % 3 == 0 else ([], [])
        sel_args = (["-e", ",".join(sel_e)] if sel_e else []) + (["-d", ",".join(sel_d)] if sel_d else [])
        # every fourth document runs every entry point under the minimal return-code scheme
        grp_d = str(key).startswith(("Z10:", "Z11:", "Z12:")) or (isinstance(it, dict) and str(it.get("case", "")).startswith(("Z10:", "Z11:", "Z12:")))
        minimal = grp_d and idx % 4 == 1  # (group D documents only: the baselines of the earlier zones predate this)
        sch_args = ["--return-code-scheme", "minimal"] if minimal else []
        sel_args = sch_args + sel_args
        # documents with the logger's substitution character always get the verbose diagnostic variants
        verbose = idx % 40 == 0 or (grp_d and "$" in doc)

        def api(level="critical"):
            a = PyMarkdownApi()
            a = {"critical": a.log_critical_and_above, "info": a.log_info_and_above, "debug": a.log_debug_and_above, "warning": a.log_warning_and_above}[level]()
            if minimal:
                a = a.set_string_property("mode.return_code_scheme", "minimal")
            for r_ in sel_e:
                a = a.enable_rule_by_identifier(r_)
            for r_ in sel_d:
                a = a.disable_rule_by_identifier(r_)
            return a

        base = app.scan_files([p], enable=sel_e or None, disable=sel_d or None, extra=sch_args)
        if base.watchdog or base.tokenization_error or base.plugin_error or (base.err and "Error" in base.errtext):
            R.skip("scan-error(C01/C07)")
            continue
        ref = [(f[1], f[2], f[3], f[5], f[6]) for f in base.failures]
        ref4 = [(f[1], f[2], f[3], f[6]) for f in base.failures]
        R.see("variants", vname)
        # in-process scan-stdin (string)
        o = app.scan_text(doc, enable=sel_e or None, disable=sel_d or None, extra=sch_args)
        if [(f[1], f[2], f[3], f[5], f[6]) for f in o.failures] != ref or o.rc != base.rc:
            v.add("stdin-string-vs-file")
            detail["stdin"] = o.fail_tuples()[:10]
        # API
        try:
            r1 = app.guarded(lambda: api().scan_string(doc))
            R.count("api_calls")
            got = [(f.line_number, f.column_number, f.rule_id, f.rule_description, f.extra_error_information or "") for f in r1.scan_failures]
            if got != ref:
                v.add("api-scan_string-vs-file")
                detail["scan_string"] = got[:10]
            r2 = app.guarded(lambda: api().scan_path(p))
            R.count("api_calls")
            got = [(f.line_number, f.column_number, f.rule_id, f.rule_description, f.extra_error_information or "") for f in r2.scan_failures]
            if got != ref:
                v.add("api-scan_path-vs-file")
            if verbose:
                lvl = ("info", "debug", "warning")[idx % 3]
                r3 = app.guarded(lambda: api(lvl).scan_string(doc), 60.0)
                R.count("api_calls")
                R.count("api_verbose_log_calls")
                got = [(f.line_number, f.column_number, f.rule_id, f.rule_description, f.extra_error_information or "") for f in r3.scan_failures]
                if got != ref:
                    v.add("api-log-level-changes-scan_string:" + lvl)
        except PyMarkdownApiException as e:
            v.add("api-exception")
            detail["api_exception"] = str(e)[:200]
        except app.ApiWatchdog:
            R.skip("api-watchdog")
        # real processes (subset: process start-up is 0.6 s)
        if idx % 8 == 0:
            rc, out, err = app.cli(["--log-level", "CRITICAL"] + sel_args + ["scan", "d.md"], cwd=sb.cwd)
            R.count("cli_processes")
            if [(a, b, c) for a, b, c, _ in _parse_cli(out)] != [(a, b, c) for a, b, c, _ in ref4] or rc != base.rc:
                v.add("cli-file-vs-inprocess")
                detail["cli_file"] = [rc, out[:300], err[:200]]
            rc, out, err = app.cli(["--log-level", "CRITICAL"] + sel_args + ["scan-stdin"], doc.encode("utf-8"), cwd=sb.cwd)
            R.count("cli_processes")
            if [(a, b, c) for a, b, c, _ in _parse_cli(out)] != [(a, b, c) for a, b, c, _ in ref4] or rc != base.rc:
                v.add("cli-stdin-vs-file")
                detail["cli_stdin"] = [rc, out[:300], err[:200]]
        # diagnostics must be inert
        variants = [DIAG[idx % len(DIAG)]]
        if verbose:
            variants.append(DIAG_VERBOSE[(idx // 40) % len(DIAG_VERBOSE) if idx % 40 == 0 else idx % len(DIAG_VERBOSE)])
        for extra in variants:
            extra = list(extra)
            R.count("diagnostic_variants")
            od = app.invoke(extra + sel_args + ["scan", p])
            if od.watchdog:
                continue
            if [(f[1], f[2], f[3], f[6]) for f in od.failures] != ref4 or od.rc != base.rc or od.out != base.out:
                v.add("diagnostics-change-scan:" + "+".join(x for x in extra if x.startswith("--")))
            if os.path.exists(os.path.join(sb.cwd, "LOG")):
                os.remove(os.path.join(sb.cwd, "LOG"))
        # fix: file vs fix_string
        of, fixed = app.fix_text(sb, doc, name="e.md", enable=sel_e or None, disable=sel_d or None, extra=sch_args)
        if not app.fix_error_kind(of) and fixed is not None:
            try:
                fr = app.guarded(lambda: api().fix_string(doc))
                R.count("api_calls")
                want = sb.read("e.md").decode("utf-8")
                # fix_string hands back text read in text mode; compare modulo the platform's newline translation only
                if fr.fixed_file != want and fr.fixed_file != want.replace("\r\n", "\n").replace("\r", "\n"):
                    v.add("fix_string-vs-fix-file")
                    detail["fix_file"] = want[:300]
                    detail["fix_string"] = fr.fixed_file[:300]
                if bool(fr.was_fixed) != bool(of.fixed):
                    v.add("fix_string-flag-vs-fix-file")
            except PyMarkdownApiException:
                v.add("fix_string-exception")
            except app.ApiWatchdog:
                R.skip("api-watchdog")
            j = (idx * 5 + 2) % len(DIAG)
            sb.write_bytes("g.md", doc.encode("utf-8"))
            og = app.invoke(list(DIAG[j]) + sel_args + ["fix", os.path.join(sb.cwd, "g.md")])
            R.count("diagnostic_variants")
            if not og.watchdog and (sb.read("g.md") != sb.read("e.md") or og.rc != of.rc):
                v.add("diagnostics-change-fix:" + "+".join(x for x in DIAG[j] if x.startswith("--")))
        R.count("documents_compared")
        if ref:
            R.distinct.add(PL.mix(key, len(ref)) & 0xFFFFFFFFFFFF)
        if v:
            R.viol.append([key, ";".join(sorted(v)), detail])
        elif len(R.samples) < 2 and ref:
            R.samples.append({"case": key, "variant": vname, "doc": doc[:120], "failures_all_entry_points": ref4[:6]})
    return R.as_dict()
