"""C13 — results for a file do not depend on which files were processed before it.

Histories: ordered pairs and triples from a pool of documents that between them exercise every rule
with per-file state (first-style-seen rules, heading history, list state, link definitions, pragmas,
counters) and every parser feature with cross-line state.  Oracle: per-file outputs of ONE
invocation over (A, B[, C]) equal those of separate invocations (scan: failures and pragma errors;
fix: final bytes and announcements); the same for consecutive calls on one PyMarkdownApi object.
"""
import os

from vf import universe as U
from vf.checks import parserlevel as PL

PROPERTY = "C13"
LEVEL = "exploration"
BASELINE = "C13"
REQUIRED_COUNTERS = ["invocations", "histories_compared", "files_compared"]
ASSUMPTIONS = [
    "documents on which a single-file run already ends in an error are left out of histories (C01/C07), counted",
    "every rule except the debug rule md999 is enabled, so that every rule's per-file state is live",
]

HAND = [
    "# Title\n\nSome text.\n\n## Section\n\nMore text.\n",
    "Title\n=====\n\nSetext style first.\n\nSection\n-------\n",
    "# Title #\n\nClosed atx first.\n\n## Two ##\n",
    "# Dup\n\n## Dup\n\ntext\n",
    "## Starts at two\n\n#### skips\n",
    "# One\n\n# Another top\n",
    "* star list\n* second\n",
    "- dash list\n- second\n",
    "+ plus list\n+ second\n",
    "* mixed\n- markers\n+ here\n",
    "1. one\n1. one again\n1. all ones\n",
    "1. one\n2. two\n3. three\n",
    "0. zero\n1. one\n",
    "```python\ncode\n```\n",
    "~~~text\ncode\n~~~\n",
    "    indented code\n\ntext\n",
    "text\n\n    indented\n\n```\nfenced\n```\n",
    "---\n\ntext\n\n***\n",
    "***\n\ntext\n\n***\n",
    "[a]: /url-a\n[b]: /url-b 'title'\n\nuse [a] and [b]\n",
    "use [a] and [b] which are not defined here\n",
    "[a]: /other\n\n[a]\n",
    "<!-- pyml disable-num-lines 50 md009,md013,md047-->\ntext   \nmore   ",
    "text   \nmore   ",
    "<!-- pyml disable-next-line no-multiple-space-atx-->\n#  spaced\n\n#  spaced again\n",
    "- open list\n  - nested\n    - deeper",
    "> quote\n> - list in quote\n>   more",
    "paragraph with *emphasis* and **strong** and `code` and <b>html</b>\n",
    "<div>\nhtml block\n</div>\n\n<span>inline</span> text\n",
    "![image](/i.png)\n\n![](/noalt.png)\n\n[empty]()\n",
    "https://bare.url and (reversed)[link]\n",
    "#No space\n\n##  Two spaces\n\n #Indented\n",
    "text\n\n\n\nmany blanks\n\t\ttabs\n",
    "Line that is very long " + "word " * 30 + "\n",
    "# Heading with punctuation.\n\n## Question?\n",
    "text immediately\n# heading without blanks\nmore text\n",
    "*emphasis as heading*\n\n**strong as heading**\n",
    "$ command\n\n```\n$ ls\n$ pwd\n```\n",
    "* a\n    * over-indented\n* b\n",
    " * indented list\n * second\n",
    "1. a\n\n   para\n\n1. b\n",
    "text [link]( /spaces ) and ` code ` and * not emph *\n",
    "| a | b |\n|---|---|\n| 1 | 2 |\n",
    "Term\n: not a deflist\n\n- [ ] task\n- [x] done\n",
    "paragraph\n***\nthematic\n___\n",
    "> q1\n\n> q2 separated\n",
    "```\nunclosed fence\n",
    "# javascript and github\n\nJavaScript GitHub\n",
    # documents whose FIRST element is special to some rule (first-element / first-line state must be re-armed per file)
    "<h1><img src='logo.png' alt='logo'></h1>\n\ntext\n",
    "<h1 align=\"center\"><img src=\"/l.png\"></h1>\n",
    "![logo](/l.png)\n\n# Title after image\n",
    "<!-- comment first -->\n\n# Title after comment\n",
    "---\ntitle: front\n---\n\n# Title after front matter\n",
    "text\twith a tab\n",
    "\n\n# Title after blank lines\n",
    "[ref]: /only-a-definition\n",
    "> quote first\n\n# then a heading\n",
    "    indented code first\n\n# then a heading\n",
]
N_CORPUS = 40
# a second configuration with the per-file "first style seen" modes that the defaults do not use
ALT_SETS = ["plugins.md004.style=sublist", "plugins.md029.style=ordered", "plugins.md003.style=consistent", "plugins.md007.indent=$#4", "plugins.md012.maximum=$#2",
            "plugins.md024.siblings_only=$!True", "plugins.md044.names=JavaScript,GitHub", "plugins.md026.punctuation=.?"]


def universe_hash():
    return U.content_hash()


def pool():
    n = len(U.corpus())
    docs = list(HAND)
    for j in range(N_CORPUS):
        docs.append(U.doc("Z1", (j * 127 + 11) % n))
    return docs


def _counts():
    n = len(pool())
    return n, n * n, 6000


def decode(i):
    n, npairs, ntriples = _counts()
    if i < npairs:
        return [i // n, i % n]
    j = i - npairs
    from vf.prng import R

    r = R(0x13000000 + j)
    return [r.below(n), r.below(n), r.below(n)]


def plan(tier, seed, complete=False):
    n, npairs, ntriples = _counts()
    total = npairs + ntriples
    if complete or tier == "thorough":
        idx = list(range(total))
    else:
        from vf.prng import R, mix

        r = R(mix("C13", seed))
        idx = sorted(set(r.sample(npairs, 2200)) | {npairs + k for k in r.sample(ntriples, 500)})
    return {
        "items": [f"H:{i}" for i in idx] + ([f"API:{k}" for k in range(64)] if (complete or tier == "thorough") else [f"API:{(seed * 4 + j) % 64}" for j in range(6)]),
        "zones": {"ordered pairs": {"universe": npairs, "run": len([i for i in idx if i < npairs])}, "ordered triples": {"universe": ntriples, "run": len([i for i in idx if i >= npairs])}, "pool": {"documents": n}},
        "exhaustive": False,
        "rule": "ordered pairs (all) and pseudo-random triples over a pool of hand-written state-bearing documents + corpus documents, scan and fix, "
        "plus sequences of calls on one API object; distinct = histories whose files report at least one failure or get fixed",
    }


def witness_item(k):
    w = k["witness"]
    if "api_sequence" in w or str(w.get("case", "")).startswith("API:"):
        return {"key": "W:" + k["id"], "api": int(w.get("api_sequence", str(w.get("case", "API:0")).split(":")[1]))}
    return {"key": "W:" + k["id"], "hist": w["history"]}


def replay_item(rp):
    if "api_sequence" in rp["detail"]:
        return {"key": str(rp["case"]), "api": int(rp["detail"]["api_sequence"])}
    return {"key": str(rp["case"]), "hist": rp["detail"]["history"]}


def run_items(items, job):
    from pymarkdown.api import PyMarkdownApi, PyMarkdownApiException

    from vf import app, pm

    sb = app.Sandbox(job["work"])
    docs = pool()
    allr = pm.all_rules()
    R = PL.Result()
    single_scan = {}
    single_fix = {}
    cfg = {"sets": ()}

    def scan_alone(d):
        d = (d, cfg["sets"])
        return _scan_alone(d)

    def fix_alone(d):
        d = (d, cfg["sets"])
        return _fix_alone(d)

    def _scan_alone(dk):
        d = dk
        if d not in single_scan:
            sb.clear_files()
            p = sb.write_bytes("x.md", docs[d[0]].encode("utf-8"))
            o = app.scan_files([p], only=allr, sets=d[1])
            R.count("invocations")
            bad = o.watchdog or o.tokenization_error or o.plugin_error or (bool(o.err) and "Error" in o.errtext)
            single_scan[d] = None if bad else (sorted(f[1:] for f in o.failures), sorted(e[1:] for e in o.pragma_errors))
        return single_scan[d]

    def _fix_alone(dk):
        d = dk
        if d not in single_fix:
            sb.clear_files()
            p = sb.write_bytes("x.md", docs[d[0]].encode("utf-8"))
            o = app.fix_files([p], only=allr, sets=d[1])
            R.count("invocations")
            single_fix[d] = None if app.fix_error_kind(o) else (sb.read("x.md"), bool(o.fixed))
        return single_fix[d]

    for it in items:
        if isinstance(it, dict) and "api" in it:
            cfg["sets"] = ()
            _api_sequence(it["api"], docs, allr, sb, R, scan_alone, PyMarkdownApi, PyMarkdownApiException, key=it["key"])
            continue
        if isinstance(it, dict):
            key, hist = it["key"], it["hist"]
        elif it.startswith("API:"):
            cfg["sets"] = ()
            _api_sequence(int(it.split(":")[1]), docs, allr, sb, R, scan_alone, PyMarkdownApi, PyMarkdownApiException)
            continue
        else:
            key, hist = it, decode(int(it.split(":")[1]))
        R.evals += 1
        hi = int(key.split(":")[1]) if key.startswith("H:") else 0
        cfg["sets"] = tuple(ALT_SETS) if hi % 3 == 0 else ()
        if any(docs[d] == "" for d in hist):
            R.skip("empty-document-in-history")
            continue
        alone = [scan_alone(d) for d in hist]
        alone_fix = [fix_alone(d) for d in hist]
        v = set()
        detail = {"history": hist, "docs": [docs[d] for d in hist], "config": list(cfg["sets"])}
        names = [f"f{j}.md" for j in range(len(hist))]
        # names sort in argument order, and the application processes files in sorted order
        if all(a is not None for a in alone):
            sb.clear_files()
            paths = [sb.write_bytes(n, docs[d].encode("utf-8")) for n, d in zip(names, hist)]
            o = app.scan_files(paths, only=allr, sets=cfg["sets"])
            R.count("invocations")
            if not o.watchdog:
                R.count("histories_compared")
                for j, n in enumerate(names):
                    R.count("files_compared")
                    got = (sorted(f[1:] for f in o.failures if os.path.basename(f[0]) == n), sorted(e[1:] for e in o.pragma_errors if os.path.basename(e[0]) == n))
                    if got != alone[j]:
                        rules = sorted({x[2] for x in got[0]} ^ {x[2] for x in alone[j][0]}) or sorted({x[2] for x in set(got[0]) ^ set(alone[j][0])})
                        v.add(f"scan:file{j + 1}-of-{len(hist)}:" + ",".join(rules or ["pragma"]))
                        detail.setdefault("scan_diff", []).append([n, got[0][:8], alone[j][0][:8]])
                if o.err and not v and "Error" in o.errtext:
                    v.add("scan:error-only-in-history")
                if any(o.failures) or any(a[0] for a in alone):
                    R.distinct.add(PL.mix("C13", *hist) & 0xFFFFFFFFFFFF)
        else:
            R.skip("single-file-scan-error")
        if all(a is not None for a in alone_fix):
            sb.clear_files()
            paths = [sb.write_bytes(n, docs[d].encode("utf-8")) for n, d in zip(names, hist)]
            o = app.fix_files(paths, only=allr, sets=cfg["sets"])
            R.count("invocations")
            if not o.watchdog:
                if app.fix_error_kind(o):
                    v.add("fix:error-only-in-history:" + app.fix_error_kind(o))
                else:
                    R.count("histories_compared")
                    ann = {os.path.basename(p) for p in o.fixed}
                    for j, n in enumerate(names):
                        R.count("files_compared")
                        if sb.read(n) != alone_fix[j][0]:
                            v.add(f"fix:file{j + 1}-of-{len(hist)}:bytes")
                            detail.setdefault("fix_diff", []).append([n, sb.read(n).decode("utf-8", "replace")[:200], alone_fix[j][0].decode("utf-8", "replace")[:200]])
                        if (n in ann) != alone_fix[j][1]:
                            v.add(f"fix:file{j + 1}-of-{len(hist)}:announcement")
        else:
            R.skip("single-file-fix-error")
        if v:
            R.viol.append([key, ";".join(sorted(v)), detail])
        elif len(R.samples) < 2 and all(a is not None for a in alone) and any(a[0] for a in alone):
            R.samples.append({"case": key, "history": hist, "docs": [docs[d][:60] for d in hist], "failures_per_file": [len(a[0]) for a in alone]})
    return R.as_dict()


def _api_sequence(k, docs, allr, sb, R, scan_alone, PyMarkdownApi, PyMarkdownApiException, key=None):
    """One API object, many consecutive calls of every kind; each result must equal that of a fresh object."""
    from vf.prng import R as PR

    r = PR(0x13A00000 + k)
    seq = [(r.below(len(docs)), r.below(6)) for _ in range(14)]

    def make():
        a = PyMarkdownApi().log_critical_and_above()
        for rid in allr:
            a.enable_rule_by_identifier(rid)
        return a

    def fails(res):
        return sorted((f.line_number, f.column_number, f.rule_id, f.rule_name, f.rule_description, f.extra_error_information or "") for f in res.scan_failures)

    def call(a, op, d):
        from vf import app as _app

        try:
            return _app.guarded(lambda: _call(a, op, d), 30.0)
        except _app.ApiWatchdog:
            return ("watchdog",)

    def _call(a, op, d):
        """-> comparable result of one call (exceptions are results too)"""
        sb.clear_files()
        p = sb.write_bytes("x.md", docs[d].encode("utf-8"))
        try:
            if op <= 1:
                res = a.scan_path(p)
                return ("scan_path", fails(res), sorted((e.line_number, e.pragma_error) for e in res.pragma_errors))
            if op == 2:
                res = a.scan_string(docs[d])
                return ("scan_string", fails(res), sorted((e.line_number, e.pragma_error) for e in res.pragma_errors))
            if op == 3:
                res = a.fix_string(docs[d])
                return ("fix_string", bool(res.was_fixed), res.fixed_file)
            if op == 4:
                res = a.fix_path(p)
                return ("fix_path", sorted(os.path.basename(x) for x in res.files_fixed), sb.read("x.md"))
            res = a.list_path(sb.cwd)
            return ("list_path", sorted(os.path.basename(x) for x in res.matching_files))
        except PyMarkdownApiException as e:
            import re

            return ("exception", re.sub(r"'[^']*'", "'PATH'", str(e))[:120])

    api = make()
    R.evals += 1
    v = set()
    trail = []
    diffs = []
    for d, op in seq:
        if docs[d].strip() == "":
            continue
        want = call(make(), op, d)
        got = call(api, op, d)
        R.count("invocations", 2)
        R.count("files_compared")
        R.count("api_calls_on_reused_object")
        R.see("api_ops", want[0])
        if want[0] == "watchdog" or got[0] == "watchdog":
            R.skip("api-watchdog")
            continue
        if got != want:
            what = want[0] if want[0] == got[0] else f"{want[0]}->{got[0]}"
            v.add(f"api:{what}-differs-after:" + (trail[-1] if trail else "nothing"))
            diffs.append([list(map(str, want))[:3], list(map(str, got))[:3]])
        trail.append(want[0])
        if op <= 1 and want[0] == "scan_path":
            alone = scan_alone(d)
            if alone is not None and want[1] != alone[0]:
                v.add("api:scan_path-vs-command-line")
    R.count("histories_compared")
    if v:
        R.viol.append([key or f"API:{k}", ";".join(sorted(v)), {"history": [list(x) for x in seq], "api_sequence": k, "differences": diffs[:4]}])
