"""C09 — fix converges: one `fix` run reaches a fixed point with nothing fixable left.

Per (document, rule configuration): fix(d) -> d1; fix(d1) must change nothing, announce nothing and
exit 0; scan(d1) under the same configuration must report no failure of a fix-capable enabled rule.
Configurations: default set; one fix-capable default rule alone; one pair (both index-chosen).
"""
from vf import universe as U
from vf.checks import parserlevel as PL

PROPERTY = "C09"
LEVEL = "exploration"
BASELINE = "C09"
REQUIRED_COUNTERS = ["fix_runs", "converged_checked"]
ASSUMPTIONS = [
    "documents on which fix itself ends in an error (tokenization, plugin error, fix conflict) are C01/C07/C15 matters and skipped (counted)",
]
LIMIT = {"Z1": 15291, "Z3": 12000, "Z4": 6000, "Z7": 30000, "Z11": 20000, "Z12": 30000}


def universe_hash():
    return PL.hash_ab()


def plan(tier, seed, complete=False):
    items, zinfo = PL.plan_docs(tier, seed, complete, quick={"Z1": 550, "Z3": 350, "Z4": 200, "Z7": 600, "Z11": 350, "Z12": 450}, z1_all=False, limit=LIMIT, zones=("Z1", "Z3", "Z4", "Z7", "Z11", "Z12"), force_b=True, check="C09",
                                   ranges={"Z1": [(0, 10194), (20388, 25485)]})
    if not PL.only_group_b():
        items = items + [f"T:{i}" for i in range(len(TAB_DOCS))]
        zinfo["T (enumerated tab-after-marker documents)"] = {"universe": len(TAB_DOCS), "run": len(TAB_DOCS)}
    return {
        "items": items, "zones": zinfo, "exhaustive": False,
        "rule": "documents of the frozen universes x {default rules, one fix-capable rule alone, one pair of fix-capable rules} (rule choice is a function of the "
        "universe index); distinct = distinct (document, configuration) pairs whose first fix changed the file",
    }


witness_item = PL.witness_item
replay_item = PL.replay_item


def _tab_docs():
    """Enumerated family T: a tab right after every kind of block marker, where a token rule has to predict
    what the line rule MD010 will turn the tab into (the fix levels only cooperate if it predicts right)."""
    out = []
    gaps = ["\t", "\t\t", " \t", "\t ", "  \t"]
    for h in range(1, 7):
        for gap in gaps:
            for lead in ("", " ", "  ", "   "):
                for tail in ("", " #", "\t#"):
                    out.append(f"# Title\n\n{lead}{'#' * h}{gap}Section{tail}\n\nSome text.\n")
    for marker in ("-", "*", "1.", "10."):
        for gap in gaps:
            out.append(f"{marker}{gap}item\n{marker}{gap}two\n")
            out.append(f"{marker} outer\n  {marker}{gap}inner\n")
    for gap in gaps:
        out.append(f">{gap}text\n>{gap}more\n")
        out.append(f"text{gap}\nmore\n")
    return out


TAB_DOCS = _tab_docs()


def configs_for(idx, fixr):
    a = fixr[(idx * 7) % len(fixr)]
    b = fixr[(idx * 11 + 3) % len(fixr)]
    c = fixr[(idx * 5 + 1) % len(fixr)]
    if c == b:
        c = fixr[(fixr.index(b) + 1) % len(fixr)]
    return [("default", None), ("only:" + a, [a]), ("only:" + b + "+" + c, sorted([b, c]))]


def run_items(items, job):
    from vf import app

    sb = app.Sandbox(job["work"])
    fixr = app.fix_capable(default_only=True)
    fixset = {r.upper() for r in app.fix_capable()}
    R = PL.Result()
    for it in items:
        if isinstance(it, str) and it.startswith("T:"):
            key, doc = it, TAB_DOCS[int(it.split(":")[1])]
        else:
            key, doc = PL.item_doc(it)
        R.evals += 1
        if doc == "":
            R.skip("empty-document")
            continue
        idx = PL.item_index(it, key)
        v = set()
        detail = {"doc": doc, "configs": {}}
        for name, only in configs_for(idx, fixr):
            sb.clear_files()
            o1, d1 = app.fix_text(sb, doc, only=only)
            R.count("fix_runs")
            k = app.fix_error_kind(o1)
            if k or d1 is None:
                R.skip("first-fix-" + (k or "undecodable"))
                continue
            o2, d2 = app.fix_text(sb, d1, only=only)
            R.count("fix_runs")
            k2 = app.fix_error_kind(o2)
            R.count("converged_checked")
            if d1 != doc:
                R.distinct.add(PL.mix(key, name) & 0xFFFFFFFFFFFF)
                R.count("first_fix_changed_file")
            cv = set()
            if k2:
                cv.add(f"second-fix-error:{k2}")
            else:
                if d2 != d1:
                    cv.add("second-fix-changes-file")
                if o2.fixed or o2.rc != 0:
                    cv.add("second-fix-announces-or-nonzero")
            o3 = app.scan_text(d1, only=only) if d1 else None
            if o3 is not None and not (o3.watchdog or o3.tokenization_error or o3.plugin_error):
                left = sorted({f[2] for f in o3.fail_tuples() if f[2] in fixset})
                if left:
                    cv.add("leftover{" + ",".join(left) + "}")
                for r in left:
                    R.see("leftover_rules", r)
            if cv:
                v.update(f"{name}:{x}" for x in cv)
                detail["configs"][name] = {"after_first": d1, "after_second": d2, "violations": sorted(cv)}
            elif len(R.samples) < 2 and d1 != doc:
                R.samples.append({"case": key, "config": name, "doc": doc[:160], "fixed": d1[:160], "second_fix": "no change"})
        if v:
            R.viol.append([key, ";".join(sorted(v)), detail])
    return R.as_dict()
