"""C03 — the parse conforms to CommonMark/GFM: rendered HTML matches an independent implementation.

Events: (source, TransformToGfm(tokens)) with every extension off; reference = vendored
markdown-it-py (commonmark preset).  Oracle: normalised HTML event streams are equal (vf/htmlcmp.py).
"""
from vf import universe as U
from vf.checks import _tok
from vf.checks import parserlevel as PL

PROPERTY = "C03"
LEVEL = "exploration"
SHRINKABLE = True  # violating documents are minimised (ddmin) before the replay file is written
BASELINE = "C03"
REQUIRED_COUNTERS = ["parsed", "compared"]
ASSUMPTIONS = [
    "vendored markdown-it-py 4.0.0 is a correct CommonMark implementation on the constructs compared (its known quirks are neutralised in vf/htmlcmp.py)",
    "documents outside the 0.29/0.31 common alphabet are abstained on (counted)",
]


def canon_signature(sig):
    from vf import htmlcmp

    return htmlcmp.canon(sig)


def universe_hash():
    return U.content_hash()


def plan(tier, seed, complete=False):
    items, zinfo = PL.plan_docs(tier, seed, complete, quick={"Z2": 16000, "Z3": 4000, "Z4": 4000}, check="C03")
    return {
        "items": items, "zones": zinfo, "exhaustive": False,
        "rule": "documents of the frozen universes; differential oracle = markdown-it-py HTML vs pymarkdown HTML after "
        "block-whitespace normalisation; distinct = distinct token-kind sequences of compared documents",
    }


witness_item = PL.witness_item
replay_item = PL.replay_item


def _mon(R, pm, key, doc, toks):
    from vf import htmlcmp

    try:
        html = pm.to_html(toks)
    except pm.CpuWatchdog:
        raise
    except Exception as e:
        R.count("compared")
        R.viol.append([key, "render-exc:" + pm.exc_signature(e), {"doc": doc, "error": pm.exc_text(e)}])
        return
    verdict, sig = htmlcmp.compare(doc, html)
    if verdict == "abstain":
        R.skip("oracle-abstains:" + sig)
        return
    R.count("compared")
    if verdict == "differ":
        R.viol.append([key, sig, {"doc": doc, "pymarkdown_html": html, "reference_html": htmlcmp.reference_html(doc)}])
    elif len(R.samples) < 2:
        R.samples.append({"case": key, "doc": doc[:200], "html": html[:200], "verdict": "agree"})


def run_items(items, job):
    from vf import pm

    return _tok.drive(items, pm.ext_config(set()), _mon)
