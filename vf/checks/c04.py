"""C04 — the token stream is a well-nested, class-respecting tree.

Oracle: an independent stack automaton (vf/monitors.py::c04) replayed over the list the parser
returned; the same automaton also runs on the tokens a rule plugin receives (see C14).
"""
from vf import universe as U
from vf import monitors
from vf.checks import _tok
from vf.checks import parserlevel as PL

PROPERTY = "C04"
LEVEL = "exploration"
SHRINKABLE = True  # violating documents are minimised (ddmin) before the replay file is written
BASELINE = "C04"
REQUIRED_COUNTERS = ["parsed", "tokens_checked"]
ASSUMPTIONS = ["BLANK tokens inside html/code blocks are the parser's legitimate representation of blank content lines"]


def universe_hash():
    return U.content_hash()


def plan(tier, seed, complete=False):
    items, zinfo = PL.plan_docs(tier, seed, complete, check="C04", fx=700)
    return {
        "items": items, "zones": zinfo, "exhaustive": False,
        "rule": "documents of the frozen universes; stack automaton over every returned token list; distinct = distinct token-kind sequences",
    }


witness_item = PL.witness_item
replay_item = PL.replay_item


def _mon(R, pm, key, doc, toks):
    v, n = monitors.c04(toks)
    R.count("tokens_checked", n)
    if v:
        R.viol.append([key, ";".join(v), {"doc": doc, "tokens": [str(t) for t in toks][:60]}])
    elif len(R.samples) < 2:
        R.samples.append({"case": key, "doc": doc[:200], "tokens": [t.token_name for t in toks][:40]})


def run_items(items, job):
    return _tok.drive(items, None, _mon, job=job)
