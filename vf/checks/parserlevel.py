"""Shared machinery of the parser-level checks C01..C05 (one parse, one monitor per property)."""
import os

from vf import findings
from vf import universe as U
from vf import universe_b  # noqa: F401  (registers group B zones)
from vf import universe_c  # noqa: F401  (registers group C zones)
from vf import universe_d  # noqa: F401  (registers group D zones)
from vf import universe_e  # noqa: F401  (registers group E zones)
from vf import universe_f  # noqa: F401  (registers group F zones)
from vf import universe_g  # noqa: F401  (registers group G zones)
from vf import universe_h  # noqa: F401  (registers group H zones)
from vf.prng import mix

GROUP_B = ("Z5", "Z6", "Z7", "Z8")
GROUP_C = ("Z9",)
GROUP_D = ("Z10", "Z11", "Z12")
GROUP_E = ("Z13", "Z14", "Z15")
GROUP_F = ("Z16", "Z17", "Z18", "Z19")
GROUP_G = ("Z20",)
GROUP_H = ("Z21",)
GROUP_MODULES = {"B": universe_b, "C": universe_c, "D": universe_d, "E": universe_e, "F": universe_f, "G": universe_g, "H": universe_h}
FX_Z7 = 24000  # documents of Z7 whose fix runs are observed by the parser-level monitors

QUICK = {"Z2": 24000, "Z3": 5000, "Z4": 5000, "Z5": 12000, "Z7": 4000, "Z8": 4000, "Z9": 6000, "Z10": 6000, "Z11": 4000, "Z12": 3000, "Z13": 2500, "Z14": 1568, "Z15": 1944, "Z16": 1512, "Z17": 944, "Z18": 864, "Z19": 2880, "Z20": 2000, "Z21": 2000}


def plan_docs(tier, seed, complete=False, quick=None, zones=("Z1", "Z2", "Z3", "Z4", "Z5", "Z6", "Z7", "Z8", "Z9", "Z10", "Z11", "Z12", "Z13", "Z14", "Z15", "Z16", "Z17", "Z18", "Z19", "Z20", "Z21"), z1_all=True, limit=None, check=None, force_b=False, ranges=None, fx=0):
    quick = quick or QUICK
    items = []
    zinfo = {}
    for z in zones:
        grp = "B" if z in GROUP_B else "C" if z in GROUP_C else "D" if z in GROUP_D else "E" if z in GROUP_E else "F" if z in GROUP_F else "G" if z in GROUP_G else "H" if z in GROUP_H else "A"
        only = os.environ.get("VERIF_GROUP")
        if only and only != grp and not (force_b and not only):
            continue
        if not force_b or grp in ("C", "D", "E", "F", "G", "H"):
            if grp != "A" and not only and not group_active(check, grp):
                continue
        n = U.size(z)
        if limit and z in limit:
            n = min(n, limit[z])
        pool = None
        if ranges and z in ranges:
            pool = [i for a, b in ranges[z] for i in range(a, min(b, U.size(z)))]
            n = len(pool)
        if complete or tier == "thorough" or (z == "Z1" and z1_all) or z == "Z6":
            idx = range(n)
        else:
            idx = U.pick(z, seed, quick.get(z, 2000), 0, n)
        idx = [pool[i] for i in idx] if pool is not None else list(idx)
        zinfo[z] = {"universe": n, "run": len(idx)}
        items.extend(f"{z}:{i}" for i in idx)
    if fx and (group_b_active(check) or force_b) and os.environ.get("VERIF_GROUP") in (None, "", "B"):
        # group B also holds the fix-mode internal-parse workload (FX:<key>)
        n = FX_Z7
        idx = range(n) if (complete or tier == "thorough") else U.pick("Z7", seed + 77, fx, 0, n)
        idx = list(idx)
        zinfo["FX(Z7)"] = {"universe": n, "run": len(idx)}
        items.extend(f"FX:Z7:{i}" for i in idx)
    return items, zinfo


def group_b_active(check):
    """Group B zones take part once their baseline exists (or while it is being built: VERIF_GROUP=B)."""
    if os.environ.get("VERIF_GROUP") == "B":
        return True
    if os.environ.get("VERIF_GROUP") == "A":
        return False
    return bool(check) and os.path.exists(findings.baseline_path(check + ".B"))


def group_active(check, grp):
    """A group of zones takes part in a check once its baseline file exists."""
    return bool(check) and os.path.exists(findings.baseline_path(check + "." + grp))


def only_group_b():
    """True while a later group's baseline is being built (the group A extras are then left out)."""
    return os.environ.get("VERIF_GROUP") in ("B", "C", "D", "E", "F", "G", "H")


def item_doc(item):
    """item is a universe key 'Z3:17' or {'key':..., 'doc':...} (witness / replay)."""
    if isinstance(item, str):
        return item, U.case_doc(item)
    return item["key"], item["doc"]


def witness_item(k):
    w = k["witness"]
    if "doc" in w:
        return {"key": "W:" + k["id"], "doc": w["doc"], "case": w.get("case")}
    return {"key": "W:" + k["id"], "doc": U.case_doc(w["case"]), "case": w["case"]}


def item_index(item, key):
    """Universe index that decides index-chosen configurations: of the case itself, or (witness /
    replay items) of the universe case the document was taken from."""
    src = key
    if isinstance(item, dict) and item.get("case"):
        src = str(item["case"])
    try:
        if src[0] == "Z":
            return int(src.split(":")[1])
    except (IndexError, ValueError):
        pass
    return mix(src) & 0xFFFF


def replay_item(rp):
    d = rp["detail"]
    return {"key": str(rp["case"]), "doc": d["doc"], "case": str(rp["case"])}


def hash_ab():
    """Universe hash of checks whose single baseline spans both groups."""
    return U.content_hash() + "+" + universe_b.content_hash()


def structure_hash(tokens):
    return mix("|".join(t.token_name for t in tokens)) & 0xFFFFFFFFFFFF


def nesting_signatures(tokens, out, cap=400):
    st = []
    for t in tokens:
        n = t.token_name
        if t.is_end_token:
            if st and "end-" + st[-1] == n:
                st.pop()
            continue
        if n in ("block-quote", "ulist", "olist"):
            st.append(n)
            if len(out) < cap:
                out.add("/".join(st))


class Result:
    def __init__(self):
        self.evals = 0
        self.viol = []
        self.counters = {}
        self.skipped = {}
        self.distinct = set()
        self.samples = []
        self.observed = {}
        self.inconclusive = []

    def count(self, k, n=1):
        self.counters[k] = self.counters.get(k, 0) + n

    def skip(self, k):
        self.skipped[k] = self.skipped.get(k, 0) + 1

    def see(self, k, v):
        s = self.observed.setdefault(k, set())
        if len(s) < 500:
            s.add(v)

    def as_dict(self):
        return {
            "evals": self.evals, "viol": self.viol, "counters": self.counters, "skipped": self.skipped,
            "distinct": sorted(self.distinct), "samples": self.samples,
            "observed": {k: sorted(v) for k, v in self.observed.items()}, "inconclusive": self.inconclusive,
        }
