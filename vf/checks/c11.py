"""C11 — pragmas suppress exactly what they name and are invisible to the parser.

Metamorphic oracle.  For a document d and an insertion point k, d' = d with one pragma line inserted
before line k+1 (0 <= k <= number of lines):
  (1) tokens(d') without the pragma token == tokens(d) with every line number > k shifted by one
  (2) failures(d') == shift(failures(d)) minus exactly {lines k+2 .. k+1+N} x {named rules}
      (N = 1 for disable-next-line)
  (3) a malformed pragma suppresses nothing and yields exactly one pragma error naming line k+1
Both comment prefixes, rule ids and aliases, N in {1, 2, 5, beyond the end}.

Second family (cases M:i): one to three pragma lines (several rules named in one pragma, in either
order and with blanks after the commas; adjacent pragma lines; mixed kinds) checked against a general
model of (1)-(3), and the fix-mode clause of "otherwise invisible":
  (4) fix(d') keeps every pragma line once, unchanged and in order; fix(d') without its pragma lines
      == fix(d); every pragma line still stands in front of the content line it stood in front of.
"""
import re

from vf import universe as U
from vf.checks import parserlevel as PL
from vf.prng import R as PR
from vf.prng import mix

PROPERTY = "C11"
LEVEL = "exploration"
BASELINE = "C11"
REQUIRED_COUNTERS = ["cases_compared", "token_streams_compared", "failure_sets_compared", "suppressions_expected", "fix_pairs_compared"]
ASSUMPTIONS = [
    "documents that already contain pragma lines, do not tokenize, or crash a rule are skipped (counted)",
    "the default rule set plus md002/md043-free: every rule except the debug rule is enabled so that many (line, rule) pairs exist",
]
N_Z1 = 5097
N_Z3 = 6000
PER_DOC = 12
N_CASES = (N_Z1 + N_Z3) * PER_DOC
# third family (cases X:i): hand-written documents with pragma lines around fixes that add or remove lines
EXPLICIT = [
    "a\n\n\n\nmore\n\n<!-- pyml disable-next-line md001-->\n\n<!-- pyml disable-next-line md002-->\nx\n",
    "a\n```text\ncode\n```\n<!--- pyml disable-next-line md001-->\nb\n<!-- pyml disable-next-line md002-->\nx\n",
    "<!--- pyml disable-next-line md007-->\n* Item 1\n * Item 2\n",
    "Some text\n```text\ncode\n```\n\n<!-- pyml disable-next-line md013-->\n<!-- pyml disable-next-line md036-->\n**A heading like line**\n",
    "# h\n\n\n\n\ntext\n<!-- pyml disable-next-line md009-->\nmore   \n\n\n<!-- pyml disable-num-lines 2 md013-->\nend\n",
    "text\n~~~\ncode\n~~~\nafter\n<!-- pyml disable-next-line md047-->\n<!--- pyml disable-next-line md009-->\nlast   ",
]
PER_DOC_M = 4
N_M = (N_Z1 + N_Z3) * PER_DOC_M
MALFORMED = [
    ("<!-- pyml -->", "no-command"),
    ("<!-- pyml frobnicate md009-->", "unknown-command"),
    ("<!-- pyml disable-next-line no-such-rule-->", "unknown-rule"),
    ("<!-- pyml disable-num-lines x md009-->", "bad-count"),
    ("<!-- pyml disable-num-lines 0 md009-->", "zero-count"),
    ("<!-- pyml disable-num-lines 2-->", "no-rules"),
]


def universe_hash():
    return U.content_hash()


def plan(tier, seed, complete=False):
    if complete or tier == "thorough":
        idx = list(range(N_CASES))
        midx = list(range(N_M))
    else:
        from vf.prng import R, mix

        idx = R(mix("C11", seed)).sample(N_CASES, 2400)
        midx = R(mix("C11M", seed)).sample(N_M, 1200)
    return {
        "items": [f"P:{i}" for i in idx] + [f"M:{i}" for i in midx] + [f"X:{i}" for i in range(len(EXPLICIT))],
        "zones": {"(document, insertion point, pragma form) cases": {"universe": N_CASES, "run": len(idx)},
                  "(document, 1-3 pragma lines incl. multi-rule and adjacent ones; scan + fix) cases": {"universe": N_M, "run": len(midx)}},
        "exhaustive": False,
        "rule": "case i = document (raw corpus / calm tree) x insertion point (between any two lines: inside paragraphs, code blocks, containers) x pragma form "
        "(prefix <!-- / <!---, disable-next-line / disable-num-lines N, rule named by id or alias, named rule failing nearby or not, malformed forms); "
        "distinct = cases where at least one failure had to be suppressed or a pragma error expected",
    }


def witness_item(k):
    return {"key": "W:" + k["id"], "case": k["witness"]["case"]}


def replay_item(rp):
    return {"key": str(rp["case"]), "case": rp["detail"]["case"]}


def case_doc(i, per=PER_DOC):
    d = i // per
    if d < N_Z1:
        return U.doc("Z1", d)
    return U.doc("Z3", d - N_Z1)


INLINE_KINDS = {"text", "emphasis", "end-emphasis", "link", "end-link", "image", "icode-span", "raw-html", "uri-autolink", "email-autolink", "hard-break"}
_POS = re.compile(r"^\[([a-z\-A-Z]+)\((\d+),(\d+)\)")


def _tok_key(t, shift_after=None):
    """Comparable form of a token with its leading position made explicit."""
    s = str(t)
    m = _POS.match(s)
    ln, col = t.line_number, t.column_number
    rest = s[m.end():] if m else s
    extra = None
    if t.token_name == "setext":
        extra = (t.original_line_number, t.original_column_number)
        rest = re.sub(r"\(\d+,\d+\)\]$", "]", rest)
    if shift_after is not None:
        if ln > shift_after:
            ln += 1
        if extra and extra[0] > shift_after:
            extra = (extra[0] + 1, extra[1])
    return (t.token_name, ln, col, rest, extra)


def run_items(items, job):
    from vf import app, pm

    tok = pm.make_tokenizer()
    allr = pm.all_rules()
    names = {}
    R = PL.Result()
    base_cache = {}
    sb = app.Sandbox(job["work"])
    ctx = {"app": app, "pm": pm, "tok": tok, "allr": allr, "names": names, "sb": sb, "fixcache": {}}
    for it in items:
        if isinstance(it, dict):
            key, ci = it["key"], int(str(it["case"]).split(":")[-1])
            fam = str(it["case"]).split(":")[0]
        else:
            key, ci = it, int(it.split(":")[1])
            fam = it.split(":")[0]
        if fam == "M":
            _run_multi(ctx, R, key, ci)
            continue
        if fam == "X":
            doc2 = EXPLICIT[ci]
            R.evals += 1
            plines = [x for x in doc2.split("\n") if "pyml" in x]
            doc = "\n".join(x for x in doc2.split("\n") if "pyml" not in x)
            v = set()
            detail = {"case": f"X:{ci}", "doc": doc, "doc_with_pragma": doc2}
            _fix_clause(ctx, R, ("X", ci), doc, doc2, plines, v, detail, "explicit")
            R.see("pragma_forms", "explicit")
            if v:
                R.viol.append([key, ";".join(sorted(v)), detail])
            continue
        doc = case_doc(ci)
        R.evals += 1
        if "pyml" in doc.lower() or doc == "":
            R.skip("document-already-has-pragmas-or-empty")
            continue
        dkey = ci // PER_DOC
        if dkey not in base_cache:
            if len(base_cache) > 64:
                base_cache.clear()
            kind, toks, _ = pm.parse(tok, doc, cpu_s=4)
            if kind != "tokens":
                base_cache[dkey] = None
            else:
                o = app.scan_text(doc, only=allr)
                if o.watchdog or o.plugin_error or o.tokenization_error or (o.err and "Error" in o.errtext):
                    base_cache[dkey] = None
                else:
                    base_cache[dkey] = ([_tok_key(t) for t in toks if t.token_name != "pragma"], toks, o.fail_tuples(), o.pragma_errors)
        base = base_cache[dkey]
        if base is None:
            R.skip("does-not-parse-or-scan(C01/C07)")
            continue
        _, base_toks, base_fails, _ = base
        if any(t.token_name == "pragma" for t in base_toks):
            # the document has no pragma line, yet the parser (an instance that parsed pragma-bearing
            # documents before) attached a pragma token to it
            R.viol.append([key, "pragma-token-on-document-without-pragma-lines", {"case": f"P:{ci}", "doc": doc, "pragma": "", "doc_with_pragma": doc}])
            continue
        lines = doc.split("\n")
        r = PR(0x11000000 + ci)
        # insert *before an existing line* (between two lines or at the top); appending after the last
        # line would change whether the file ends with a newline, which is not what the property is about
        k = r.below(len(lines)) if ci % PER_DOC else 0
        # choose the rule(s) to name: prefer a rule that fails on the line right after the insertion point
        fail_rules = sorted({f[2].lower() for f in base_fails})
        near = sorted({f[2].lower() for f in base_fails if k + 1 <= f[0] <= k + 2})
        pick = (near or fail_rules or ["md009"])
        rule = pick[r.below(len(pick))]
        form = r.below(10)
        prefix = "<!---" if r.chance(0.3) else "<!--"
        if rule not in names:
            o = app.invoke(["plugins", "info", rule])
            m = re.search(r"Name\(s\)\s+(.*?)\n\s*Short Description", "".join(o.out), re.S)
            names[rule] = [x for x in re.sub(r"\s+", "", m.group(1)).split(",") if x] if m else []
        ident = rule
        if names[rule] and r.chance(0.4):
            ident = r.choice(names[rule])
        other = allr[r.below(len(allr))]
        malformed = None
        if form <= 3:
            n = 1
            pragma = f"{prefix} pyml disable-next-line {ident}-->"
            named = {rule}
        elif form <= 6:
            n = r.choice([1, 2, 5, 1000])
            pragma = f"{prefix} pyml disable-num-lines {n} {ident},{other}-->"
            named = {rule, other}
        elif form == 7:
            n = 1
            pragma = f"{prefix}  pyml disable-next-line {ident.upper()} -->"
            named = {rule}
        elif form == 8:
            pragma, malformed = MALFORMED[r.below(len(MALFORMED))]
            n = 0
            named = set()
        else:
            # two cooperating pragmas: a range, and a next-line pragma for ANOTHER rule inside that range
            n = r.choice([2, 3, 5])
            pragma = f"{prefix} pyml disable-num-lines {n} {ident}-->"
            named = {rule}
        new_lines = lines[:k] + [pragma] + lines[k:]
        pl = k + 1  # 1-based line number of the pragma line in d'
        second = None
        if form == 9 and len(lines) - k >= 2:
            j = r.randint(1, min(n - 1, len(lines) - k - 1)) if n > 1 else 1
            second_rule = other if other != rule else allr[(allr.index(other) + 1) % len(allr)]
            second = (pl + j, second_rule)  # line number (in the final document) of the second pragma
            new_lines = new_lines[: pl + j - 1] + [f"<!-- pyml disable-next-line {second_rule}-->"] + new_lines[pl + j - 1 :]
        doc2 = "\n".join(new_lines)
        v = set()
        detail = {"case": f"P:{ci}", "doc": doc, "pragma": pragma, "inserted_before_line": k + 1, "doc_with_pragma": doc2}
        tag = "malformed" if malformed else ("next-line" if form <= 3 or form == 7 else ("pair" if second else "num-lines"))
        # (1) parser invisibility
        kind2, toks2, _ = pm.parse(tok, doc2, cpu_s=4)
        R.count("cases_compared")
        if kind2 != "tokens":
            v.add(f"{tag}:parse-fails-with-pragma")
            detail["parse_error"] = pm.exc_text(toks2) if kind2 == "error" else kind2
        else:
            R.count("token_streams_compared")
            a = [_tok_key(t, shift_after=k) for t in base_toks if t.token_name != "pragma"]
            if second:
                # a second inserted line: shift once more everything at or after it
                a = [(x[0], x[1] + 1 if x[1] >= second[0] else x[1], x[2], x[3], (x[4][0] + 1 if x[4][0] >= second[0] else x[4][0], x[4][1]) if x[4] else None) for x in a]
            b = [_tok_key(t) for t in toks2 if t.token_name != "pragma"]
            if not any(t.token_name == "pragma" for t in toks2):
                v.add(f"{tag}:pragma-line-not-recognised")
            elif a != b:
                if [x[0] for x in a] != [x[0] for x in b]:
                    v.add(f"{tag}:token-kinds-differ")
                elif [(x[0], x[3], x[4] is None) for x in a] != [(x[0], x[3], x[4] is None) for x in b]:
                    v.add(f"{tag}:token-content-differs")
                else:
                    kinds = sorted({x[0] for x, y in zip(a, b) if x != y})
                    v.add(f"{tag}:positions-not-shifted:" + ("inline" if set(kinds) <= INLINE_KINDS else ",".join(kinds[:2])))
                detail["tokens_expected"] = [str(x) for x in a][:40]
                detail["tokens_got"] = [str(x) for x in b][:40]
        # (2)/(3) failures.  Every fourth case enables ONLY the named rule: suppression must not depend on
        # which other rules happen to be enabled
        solo = (ci % 4 == 1) and not malformed
        if solo:
            ob = app.scan_text(doc, only=[rule])
            if ob.watchdog or ob.plugin_error or ob.tokenization_error:
                solo = False
            else:
                base_fails = ob.fail_tuples()
                R.count("solo_rule_cases")
        o2 = app.scan_text(doc2, only=([rule] if solo else allr))
        if o2.watchdog or o2.tokenization_error or o2.plugin_error:
            if kind2 == "tokens":
                v.add(f"{tag}:scan-fails-with-pragma")
        else:
            R.count("failure_sets_compared")
            want = []
            supp = 0
            for (ln, col, rid, extra) in base_fails:
                ln2 = ln + 1 if ln > k else ln
                if second and ln2 >= second[0]:
                    ln2 += 1
                # the range counts physical lines of the final document (the second pragma line is one of them)
                if not malformed and rid.lower() in named and pl + 1 <= ln2 <= pl + n:
                    supp += 1
                    continue
                if second and rid.lower() == second[1] and ln2 == second[0] + 1:
                    supp += 1
                    continue
                want.append((ln2, col, rid, extra))
            R.count("suppressions_expected", supp)
            got = o2.fail_tuples()
            if sorted(got) != sorted(want):
                gs, ws = set(got), set(want)
                missing = ws - gs
                extra_ = gs - ws
                rules = sorted({x[2] for x in missing | extra_})
                cls = []
                if any(x[2].lower() in named for x in missing):
                    cls.append("over-suppressed-named-rule")
                if any(x[2].lower() not in named for x in missing):
                    cls.append("lost-unrelated-failure")
                if any(x[2].lower() in named and pl + 1 <= x[0] <= pl + n for x in extra_):
                    cls.append("not-suppressed")
                elif extra_:
                    cls.append("new-or-moved-failure")
                v.add(f"{tag}:failures:" + "+".join(cls) + ":" + (rules[0] if rules else "-"))
                detail["failures_expected"] = sorted(want)[:12]
                detail["failures_got"] = sorted(got)[:12]
            pe = [(e[1], e[2]) for e in o2.pragma_errors]
            if malformed:
                if len(pe) != 1 or pe[0][0] != pl:
                    v.add(f"malformed:{malformed}:pragma-errors={len(pe)}" + ("" if not pe else f"@{'same' if pe[0][0] == pl else 'other'}-line"))
                    detail["pragma_errors"] = pe
            elif pe:
                v.add(f"{tag}:unexpected-pragma-error")
                detail["pragma_errors"] = pe
            if supp or malformed:
                R.distinct.add(PL.mix("C11", ci) & 0xFFFFFFFFFFFF)
        if ci % 2 == 0 and kind2 == "tokens":
            plines = [pragma] if not second else None
            if second:
                plines = [x for x in new_lines if "pyml" in x]
            _fix_clause(ctx, R, dkey, doc, doc2, plines, v, detail, tag)
        R.see("pragma_forms", tag + ("/" + malformed if malformed else ""))
        if v:
            R.viol.append([key, ";".join(sorted(v)), detail])
        elif len(R.samples) < 2 and (supp or malformed):
            R.samples.append({"case": key, "pragma": pragma, "inserted_before_line": k + 1, "suppressed": supp, "doc": doc[:120]})
    return R.as_dict()


# ---------------------------------------------------------------------------------- fix-mode clause
_ALNUM = re.compile(r"[A-Za-z\u00c0-\uffff]+")  # letters only: list numbers are rewritten by MD029


def _sig(line):
    return "".join(_ALNUM.findall(line))


def _next_content(lines, j, pset):
    """alnum signature of the first line after index j that is neither blank, a pragma, nor marker-only"""
    for x in lines[j + 1:]:
        if x in pset:
            continue
        s = _sig(x)
        if s:
            return s
    return None


def _fix_clause(ctx, R, dkey, doc, doc2, plines, v, detail, tag):
    """(4): the pragma lines survive a fix unchanged, in order, attached, and the rest is fix(d)."""
    app, sb = ctx["app"], ctx["sb"]
    fc = ctx["fixcache"]
    if dkey not in fc:
        if len(fc) > 64:
            fc.clear()
        sb.clear_files()
        o, f = app.fix_text(sb, doc, only=ctx["allr"])
        fc[dkey] = None if (app.fix_error_kind(o) or f is None) else f
    f = fc[dkey]
    if f is None:
        R.skip("fix-of-plain-document-fails(C07/C15)")
        return
    sb.clear_files()
    o2, f2 = app.fix_text(sb, doc2, only=ctx["allr"])
    R.count("fix_pairs_compared")
    if f != doc:
        R.count("fix_pairs_where_fix_changes_the_document")
    k2 = app.fix_error_kind(o2)
    if k2 or f2 is None:
        v.add(f"fix:{tag}:fix-fails-with-pragma:" + str(k2))
        detail["fix_error"] = str(o2.errtext)[:600]
        return
    pset = set(plines)
    l2 = f2.split("\n")
    got = [x for x in l2 if x in pset or "pyml" in x]
    bad = False
    if got != plines:
        bad = True
        if sorted(got) == sorted(plines):
            v.add("fix:pragma-lines-reordered")
        elif len(got) < len(plines):
            v.add("fix:pragma-line-lost-or-altered")
        elif len(got) > len(plines):
            v.add("fix:pragma-line-duplicated")
        else:
            v.add("fix:pragma-line-altered")
    g = "\n".join(x for x in l2 if not (x in pset or "pyml" in x))
    if g != f:
        bad = True
        d2l = doc2.split("\n")
        while d2l and d2l[-1] == "":
            d2l.pop()
        last = ":pragma-is-last-line" if (d2l and d2l[-1] in pset) else ""
        v.add("fix:rest-differs-from-fix-of-plain-document" + (last or (":same-lines-other-order" if sorted(g.split("\n")) == sorted(f.split("\n")) else "")))
    elif not bad:
        # attachment: the content line each pragma stood in front of
        d2 = doc2.split("\n")
        want = [_next_content(d2, j, pset) for j, x in enumerate(d2) if x in pset]
        have = [_next_content(l2, j, pset) for j, x in enumerate(l2) if x in pset]
        if want != have:
            bad = True
            v.add("fix:pragma-line-detached")
    if bad:
        detail["fixed_plain"] = f
        detail["fixed_with_pragma"] = f2


# ---------------------------------------------------------------------------------- family M
def _rule_names(ctx, rule):
    names, app = ctx["names"], ctx["app"]
    if rule not in names:
        o = app.invoke(["plugins", "info", rule])
        m = re.search(r"Name\(s\)\s+(.*?)\n\s*Short Description", "".join(o.out), re.S)
        names[rule] = [x for x in re.sub(r"\s+", "", m.group(1)).split(",") if x] if m else []
    return names[rule]


def _run_multi(ctx, R, key, ci):
    app, pm, tok, allr = ctx["app"], ctx["pm"], ctx["tok"], ctx["allr"]
    doc = case_doc(ci, PER_DOC_M)
    R.evals += 1
    if "pyml" in doc.lower() or doc == "":
        R.skip("document-already-has-pragmas-or-empty")
        return
    kind, toks, _ = pm.parse(tok, doc, cpu_s=4)
    if kind != "tokens":
        R.skip("does-not-parse-or-scan(C01/C07)")
        return
    ob = app.scan_text(doc, only=allr)
    if ob.watchdog or ob.plugin_error or ob.tokenization_error or (ob.err and "Error" in ob.errtext):
        R.skip("does-not-parse-or-scan(C01/C07)")
        return
    base_fails = ob.fail_tuples()
    lines = doc.split("\n")
    r = PR(mix("C11M", ci))
    variant = ci % PER_DOC_M
    by_line = {}
    for f in base_fails:
        by_line.setdefault(f[0], set()).add(f[2].lower())
    multi = sorted(ln for ln, rs in by_line.items() if len(rs) >= 2 and ln <= len(lines))
    anyl = sorted(ln for ln in by_line if ln <= len(lines))

    def ident(rule):
        nm = _rule_names(ctx, rule)
        x = r.choice(nm) if nm and r.chance(0.35) else rule
        return x.upper() if r.chance(0.15) else x

    def one(target_line):
        """a pragma placed before original line target_line (1-based), naming rules failing there"""
        rs = sorted(by_line.get(target_line, ()))
        picked = list(rs)
        r.shuffle(picked)
        picked = picked[: r.randint(1, 3)] or [allr[r.below(len(allr))]]
        if len(picked) < 2 and r.chance(0.6):
            extra = allr[r.below(len(allr))]
            if extra not in picked:
                picked.insert(r.below(2), extra)
        sep = r.choice([",", ",", ", ", " ,", " , "])
        pre = "<!---" if r.chance(0.25) else "<!--"
        if r.chance(0.7):
            return (target_line - 1, 1, set(picked), f"{pre} pyml disable-next-line {sep.join(ident(x) for x in picked)}-->")
        n = r.choice([1, 2, 3, 1000])
        return (target_line - 1, n, set(picked), f"{pre} pyml disable-num-lines {n} {sep.join(ident(x) for x in picked)}-->")

    def target():
        pool = multi if (multi and r.chance(0.7)) else (anyl or [1])
        return pool[r.below(len(pool))] if r.chance(0.85) else r.randint(1, len(lines))

    if variant <= 1:
        prs = [one(target())]
    elif variant == 2:
        t = target()
        prs = [one(t), one(t)] + ([one(min(len(lines), t + r.randint(0, 2)))] if r.chance(0.4) else [])
    else:
        prs = [one(target()) for _ in range(r.randint(2, 3))]
    prs.sort(key=lambda x: x[0])
    # final document
    out, pinfo, pi = [], [], 0
    for j, x in enumerate(lines):
        while pi < len(prs) and prs[pi][0] == j:
            out.append(prs[pi][3])
            pinfo.append((len(out), prs[pi][1], prs[pi][2]))  # (final line of pragma, n, rules)
            pi += 1
        out.append(x)
    ks = [p[0] for p in prs]
    shift = lambda ln: ln + sum(1 for k in ks if k < ln)  # noqa: E731
    doc2 = "\n".join(out)
    plines = [p[3] for p in prs]
    tag = "multi"
    v = set()
    detail = {"case": f"M:{ci}", "doc": doc, "pragmas": plines, "doc_with_pragma": doc2}
    kind2, toks2, _ = pm.parse(tok, doc2, cpu_s=4)
    R.count("cases_compared")
    if kind2 != "tokens":
        v.add(f"{tag}:parse-fails-with-pragma")
    else:
        R.count("token_streams_compared")
        a = []
        for t in toks:
            if t.token_name == "pragma":
                continue
            x = _tok_key(t)
            ex = (shift(x[4][0]), x[4][1]) if x[4] else None
            a.append((x[0], shift(x[1]) if x[1] else x[1], x[2], x[3], ex))
        b = [_tok_key(t) for t in toks2 if t.token_name != "pragma"]
        if not any(t.token_name == "pragma" for t in toks2):
            v.add(f"{tag}:pragma-line-not-recognised")
        elif a != b:
            if [x[0] for x in a] != [x[0] for x in b]:
                v.add(f"{tag}:token-kinds-differ")
            elif [(x[0], x[3], x[4] is None) for x in a] != [(x[0], x[3], x[4] is None) for x in b]:
                v.add(f"{tag}:token-content-differs")
            else:
                kinds = sorted({x[0] for x, y in zip(a, b) if x != y})
                v.add(f"{tag}:positions-not-shifted:" + ("inline" if set(kinds) <= INLINE_KINDS else ",".join(kinds[:2])))
            detail["tokens_expected"] = [str(x) for x in a][:40]
            detail["tokens_got"] = [str(x) for x in b][:40]
    o2 = app.scan_text(doc2, only=allr)
    supp = 0
    if o2.watchdog or o2.tokenization_error or o2.plugin_error:
        if kind2 == "tokens":
            v.add(f"{tag}:scan-fails-with-pragma")
    else:
        R.count("failure_sets_compared")
        want = []
        for (ln, col, rid, extra) in base_fails:
            ln2 = shift(ln)
            if any(rid.lower() in rules and pl + 1 <= ln2 <= pl + n for pl, n, rules in pinfo):
                supp += 1
                continue
            want.append((ln2, col, rid, extra))
        R.count("suppressions_expected", supp)
        got = o2.fail_tuples()
        if sorted(got) != sorted(want):
            gs, ws = set(got), set(want)
            missing, extra_ = ws - gs, gs - ws
            rules = sorted({x[2] for x in missing | extra_})
            cls = []
            if missing:
                cls.append("over-suppressed")
            if any(any(x[2].lower() in rs and pl + 1 <= x[0] <= pl + n for pl, n, rs in pinfo) for x in extra_):
                cls.append("not-suppressed")
            elif extra_:
                cls.append("new-or-moved-failure")
            v.add(f"{tag}:failures:" + "+".join(cls) + ":" + (rules[0] if rules else "-"))
            detail["failures_expected"] = sorted(want)[:12]
            detail["failures_got"] = sorted(got)[:12]
        if o2.pragma_errors:
            v.add(f"{tag}:unexpected-pragma-error")
            detail["pragma_errors"] = [(e[1], e[2]) for e in o2.pragma_errors]
        if supp:
            R.distinct.add(PL.mix("C11M", ci) & 0xFFFFFFFFFFFF)
            if any(len(rs) > 1 for _, _, rs in pinfo):
                R.count("multi_rule_pragmas_with_suppression")
    if kind2 == "tokens":
        _fix_clause(ctx, R, ("M", ci // PER_DOC_M), doc, doc2, plines, v, detail, tag)
    R.see("pragma_forms", f"multi/{len(prs)}-pragmas" + ("/adjacent" if len(set(ks)) < len(ks) else ""))
    if v:
        R.viol.append([key, ";".join(sorted(v)), detail])
