"""C17 — rule selection and settings follow the documented precedence of layers.

Model (executable, from advanced_configuration.md / advanced_plugins.md):
    enabled(rule) = first non-unset of [command line -e/-d, --set, --config file, default configuration
                    file (.pymarkdown / .pymarkdown.yaml / .pymarkdown.yml), pyproject.toml [tool.pymarkdown],
                    the rule's default]
Enumeration: {unset,true,false}^4 for the four file/--set layers x {none,-e,-d} x the rule addressed
(consistently) by its id or any of its names x {a default-enabled, a default-disabled rule} x file
formats.  Each configuration is observed three ways that must agree with the model and each other:
`plugins list`, and the failures actually reported on a probe document.
Settings: every configuration item of every rule (from `plugins info`) x {wrong type, out-of-range
candidates} x {lenient, strict}: a value that strict mode rejects must, in lenient mode, behave
exactly like the default configuration; a wrongly typed value must be rejected by strict mode with a
configuration error and the system-error exit code and nothing scanned.
"""
import json
import os
import re

from vf import universe as U
from vf.checks import parserlevel as PL

PROPERTY = "C17"
LEVEL = "exploration"
BASELINE = "C17"
REQUIRED_COUNTERS = ["invocations", "precedence_cases", "setting_cases", "observations_agreeing_with_model"]
ASSUMPTIONS = [
    "a rule is named consistently (id or one alias) throughout one configuration, as the property states",
    "each run happens in a private working directory holding only the generated configuration files",
]

RULES = [
    # (id, default enabled, probe document, names filled in at run time from `plugins info`)
    ("md047", True, "text without final newline"),
    ("md002", False, "## second level first\n"),
]
TRI = (None, True, False)
FORMATS = [("json", ".pymarkdown", "json"), ("yaml", ".pymarkdown.yaml", "yaml"), ("toml", ".pymarkdown.yml", "yaml")]


def universe_hash():
    return U.content_hash()


def _precedence_cases():
    out = []
    for ri in range(len(RULES)):
        for name_i in range(3):
            for cmd in TRI:
                for setv in TRI:
                    for cfg in TRI:
                        for dflt in TRI:
                            for pyp in TRI:
                                for fmt in range(3):
                                    out.append(("E", ri, name_i, cmd, setv, cfg, dflt, pyp, fmt))
    return out


_PC = None


def precedence_cases():
    global _PC
    if _PC is None:
        _PC = _precedence_cases()
    return _PC


def plan(tier, seed, complete=False):
    pc = precedence_cases()
    if complete or tier == "thorough":
        idx = list(range(len(pc)))
        settings = ["S:all"]
    else:
        from vf.prng import R, mix

        # the lattice is small (about 4 400 cases, 16 s on 16 cores): the quick tier enumerates it completely too
        idx = list(range(len(pc)))
        settings = ["S:all"]
    # settings are split by rule so that shards balance
    return {
        "items": [f"E:{i}" for i in idx] + [f"S:{k}" for k in range(46)] + [f"A:{k}" for k in range(46)] + [f"X:{k}" for k in range(len(strict_cases()))] + [f"V:{k}" for k in range(N_V)],
        "zones": {"precedence lattice": {"universe": len(pc), "run": len(idx)}, "settings": {"rules": 46}, "addressing (every identifier of every rule x 4 layers)": {"rules": 46},
                  "strict-mode sources": {"universe": len(strict_cases()), "run": len(strict_cases())},
                  "setting value precedence (md013.line_length in 4 layers)": {"universe": N_V, "run": N_V}},
        "exhaustive": True,
        "rule": "precedence: every {unset,true,false} assignment to the 4 layers x {none,-e,-d} x naming {id, alias...} x 2 rules x 3 file formats, "
        "checked against the executable precedence model through `plugins list` and a probe scan; settings: every configuration item of every rule x "
        "candidate invalid values x {lenient, strict}; distinct = distinct (rule, layer pattern) / (rule, item, value class)",
    }


def witness_item(k):
    return {"key": "W:" + k["id"], "case": k["witness"]["case"]}


def replay_item(rp):
    return {"key": str(rp["case"]), "case": rp["detail"]["case"]}


def model(cmd, setv, cfg, dflt, pyp, default):
    for x in (cmd, setv, cfg, dflt, pyp):
        if x is not None:
            return x
    return default


_NAMES = {}


def rule_names(app, rid):
    if rid not in _NAMES:
        o = app.invoke(["plugins", "info", rid])
        text = "".join(o.out)
        m = re.search(r"Name\(s\)\s+(.*?)\n\s*Short Description", text, re.S)
        raw = m.group(1) if m else ""
        names = [x.strip() for x in re.sub(r"\s+", "", raw).split(",") if x.strip()]
        _NAMES[rid] = names
    return _NAMES[rid]


def _b(x):
    return "true" if x else "false"


SILENT = "md013"  # an unrelated rule: a layer that exists but does not mention the rule under test


def write_layers(sb, key, cfg, dflt, pyp, fmt, silent_bits=0):
    """silent_bits: for layers left unset, bit 0/1/2 = write a pyproject / default file / --config file that
    only mentions an unrelated rule (the layer exists but is silent on the rule under test)."""
    args = []
    fname, dname, dkind = FORMATS[fmt]
    if pyp is None and silent_bits & 1:
        sb.write("pyproject.toml", f"[tool.pymarkdown]\nplugins.{SILENT}.line_length = 100\n")
    if dflt is None and silent_bits & 2:
        if dkind == "json":
            sb.write(dname, json.dumps({"plugins": {SILENT: {"line_length": 100}}}))
        else:
            sb.write(dname, f"plugins:\n  {SILENT}:\n    line_length: 100\n")
    if cfg is None and silent_bits & 4:
        if fname == "json":
            sb.write("c.json", json.dumps({"plugins": {SILENT: {"line_length": 100}}}))
            args += ["--config", "c.json"]
        elif fname == "yaml":
            sb.write("c.yaml", f"plugins:\n  {SILENT}:\n    line_length: 100\n")
            args += ["--config", "c.yaml"]
        else:
            sb.write("c.toml", f"[plugins.{SILENT}]\nline_length = 100\n")
            args += ["--config", "c.toml"]
    if pyp is not None:
        sb.write("pyproject.toml", f"[tool.pymarkdown]\nplugins.{key}.enabled = {_b(pyp)}\n")
    if dflt is not None:
        if dkind == "json":
            sb.write(dname, json.dumps({"plugins": {key: {"enabled": dflt}}}))
        else:
            sb.write(dname, f"plugins:\n  {key}:\n    enabled: {_b(dflt)}\n")
    if cfg is not None:
        if fname == "json":
            sb.write("c.json", json.dumps({"plugins": {key: {"enabled": cfg}}}))
            args += ["--config", "c.json"]
        elif fname == "yaml":
            sb.write("c.yaml", f"plugins:\n  {key}:\n    enabled: {_b(cfg)}\n")
            args += ["--config", "c.yaml"]
        else:
            sb.write("c.toml", f"[plugins.{key}]\nenabled = {_b(cfg)}\n")
            args += ["--config", "c.toml"]
    return args


def run_precedence(ci, case, sb, app, R):
    _, ri, name_i, cmd, setv, cfg, dflt, pyp, fmt = case
    rid, default, probe = RULES[ri]
    names = [rid] + rule_names(app, rid)
    key = names[name_i % len(names)]
    sb.clear_files()
    silent_bits = (ci * 5 + 3) % 8
    args = write_layers(sb, key, cfg, dflt, pyp, fmt, silent_bits)
    if setv is not None:
        args += ["--set", f"plugins.{key}.enabled=$!{_b(setv).capitalize()}"]
    if cmd is True:
        args += ["-e", key]
    if cmd is False:
        args += ["-d", key]
    want = model(cmd, setv, cfg, dflt, pyp, default)
    v = set()
    detail = {"case": f"E:{ci}", "rule": rid, "addressed_as": key, "layers": {"cmd": cmd, "set": setv, "config": cfg, "default_file": dflt, "pyproject": pyp}, "format": FORMATS[fmt][0], "silent_layers(pyproject,default-file,config)": [bool(silent_bits & 1), bool(silent_bits & 2), bool(silent_bits & 4)], "model_says_enabled": want}
    pattern = "".join("-" if x is None else ("T" if x else "F") for x in (cmd, setv, cfg, dflt, pyp))
    o = app.invoke(args + ["plugins", "list", "--all"])
    R.count("invocations")
    cur = None
    for line in "".join(o.out).split("\n"):
        w = line.split()
        if w and w[0] == rid:
            cur = w[-3]
    if o.err or cur is None:
        v.add(f"list-error:{pattern}")
        detail["stderr"] = o.errtext[:300]
    elif cur != str(want):
        v.add(f"list-disagrees-with-model:{rid}:{pattern}")
        detail["plugins_list_says"] = cur
    else:
        R.count("observations_agreeing_with_model")
    p = sb.write("probe.md", probe)
    o2 = app.invoke(["--log-level", "CRITICAL"] + args + ["scan", p])
    R.count("invocations")
    fired = any(f[3].lower() == rid for f in o2.failures)
    if o2.err and "Error" in o2.errtext:
        v.add(f"scan-error:{pattern}")
        detail["scan_stderr"] = o2.errtext[:300]
    elif fired != want:
        v.add(f"scan-disagrees-with-model:{rid}:{pattern}")
        detail["probe_fired"] = fired
    else:
        R.count("observations_agreeing_with_model")
    R.count("precedence_cases")
    R.distinct.add(PL.mix("E", rid, pattern) & 0xFFFFFFFFFFFF)
    R.see("layer_patterns", pattern)
    if v:
        return [";".join(sorted(v)), detail]
    if len(R.samples) < 2 and pattern.count("-") < 3:
        R.samples.append({"case": f"E:{ci}", "rule": rid, "addressed_as": key, "layers(cmd,set,config,default-file,pyproject)": pattern, "model": want, "plugins_list": cur, "probe_fired": fired})
    return None


PROBES = [
    "#  Title\n\ntext   \n\n\n* item\n+ other\n\n1. a\n3. b\n\n```\ncode\n```\ntext after\t\n",
    "Title\n=====\n\n## h2 ##\n\n" + "long " * 30 + "\n\n- a\n    - b\n\n> quote\n\n<div>html</div>\n\n![](/img.png) [](/x) https://bare.url\n",
    "### third\n\n*emph heading*\n\n---\n***\n\n    indented code\n\n~~~\nfence\n~~~\n\nthe github project\n\n1. x\n1. y\n",
]


def config_items(app, rid):
    o = app.invoke(["plugins", "info", rid])
    text = "".join(o.out)
    items = []
    if "CONFIGURATION ITEM" in text:
        for line in text.split("CONFIGURATION ITEM", 1)[1].split("\n")[1:]:
            w = line.split(None, 2)
            if len(w) == 3 and w[1] in ("integer", "boolean", "string"):
                items.append((w[0], w[1], w[2].strip()))
    return items


def candidates(typ, default):
    """(value class, --set encoded value)"""
    if typ == "integer":
        return [("wrong-type", "notanumber"), ("wrong-type-bool", "$!True"), ("range", "$#-1"), ("range", "$#0"), ("range", "$#1000000")]
    if typ == "boolean":
        return [("wrong-type", "$#1"), ("wrong-type", "yes")]
    return [("wrong-type", "$#1"), ("wrong-type-bool", "$!True"), ("range", "no-such-value"), ("range", "")]


def run_settings(k, sb, app, pm, R):
    rules = pm.all_rules()
    if k >= len(rules):
        return []
    rid = rules[k]
    out = []
    items = config_items(app, rid)
    R.count("invocations")
    base_args = ["--log-level", "CRITICAL", "-e", rid]
    sb.clear_files()
    paths = [sb.write(f"p{j}.md", d) for j, d in enumerate(PROBES)]
    base = app.invoke(base_args + ["scan"] + paths)
    R.count("invocations")
    base_f = base.fail_tuples(with_file=True)
    for item, typ, default in items:
        R.see("config_items", f"{rid}.{item}:{typ}")
        for cls, val in candidates(typ, default):
            setarg = ["--set", f"plugins.{rid}.{item}={val}"]
            strict = app.invoke(base_args + setarg + ["--strict-config", "scan"] + paths)
            lenient = app.invoke(base_args + setarg + ["scan"] + paths)
            R.count("invocations", 2)
            R.count("setting_cases")
            R.distinct.add(PL.mix("S", rid, item, cls, val) & 0xFFFFFFFFFFFF)
            v = set()
            strict_rejects = bool(strict.err) and ("Configuration" in strict.errtext or "configuration" in strict.errtext or "BadPluginError" in strict.errtext or "Error" in strict.errtext)
            detail = {"case": f"S:{k}", "rule": rid, "item": item, "type": typ, "value": val, "class": cls, "strict_stderr": strict.errtext[:300], "lenient_stderr": lenient.errtext[:300]}
            if cls.startswith("wrong-type") and not strict_rejects:
                v.add(f"strict-accepts-wrong-type:{typ}")
            if strict_rejects:
                if strict.rc != 1:
                    v.add(f"strict-error-exit-code-{strict.rc}")
                if strict.failures:
                    v.add("strict-error-but-scanned")
                if lenient.err:
                    v.add("lenient-errors-on-invalid-value")
                elif lenient.fail_tuples(with_file=True) != base_f:
                    v.add(f"lenient-does-not-fall-back-to-default:{typ}:{cls}")
                    detail["lenient"] = lenient.fail_tuples(with_file=True)[:6]
                    detail["default"] = base_f[:6]
                else:
                    R.count("observations_agreeing_with_model")
            else:
                R.count("observations_agreeing_with_model")
            if v:
                out.append([f"S:{k}:{item}:{val}", ";".join(sorted(v)), detail])
    if len(R.samples) < 3 and items:
        R.samples.append({"case": f"S:{k}", "rule": rid, "items": [f"{i}:{t}={d}" for i, t, d in items]})
    return out


# ------------------------------------------------------------------------------------------------
# A: every identifier (id, upper-case id, every name) of every rule selects that rule, in every layer
def run_addressing(k, sb, app, pm, R):
    rules = pm.all_rules()
    if k >= len(rules):
        return []
    rid = rules[k]
    table = {r[0]: r for r in app.rule_table()}
    default = bool(table[rid][2])
    idents = [rid, rid.upper()] + rule_names(app, rid)
    out = []
    for ident in idents:
        o = app.invoke(["plugins", "info", ident])
        R.count("invocations")
        text = "".join(o.out)
        m = re.search(r"Id\s+(\S+)", text)
        if ident == rid.upper():
            pass  # `plugins info` looks identifiers up case-sensitively; the property speaks of running rules, not of this lookup
        elif o.err or not m or m.group(1).lower() != rid:
            out.append([f"A:{k}:{ident.lower() if ident != rid.upper() else 'ID-UPPER'}:info", f"identifier-not-recognised:plugins-info", {"case": f"A:{k}", "rule": rid, "identifier": ident, "stdout": text[:200], "stderr": o.errtext[:200]}])
        else:
            R.count("observations_agreeing_with_model")
        for way in ("cmd", "set", "config", "default-file", "pyproject"):
            sb.clear_files()
            flip = not default
            args = []
            if way == "cmd":
                args = ["-e" if flip else "-d", ident]
            elif way == "set":
                args = ["--set", f"plugins.{ident}.enabled=$!{_b(flip).capitalize()}"]
            elif way == "config":
                sb.write("c.json", json.dumps({"plugins": {ident: {"enabled": flip}}}))
                args = ["--config", "c.json"]
            elif way == "default-file":
                sb.write(".pymarkdown.yaml", f"plugins:\n  {ident}:\n    enabled: {_b(flip)}\n")
            else:
                sb.write("pyproject.toml", f"[tool.pymarkdown]\nplugins.{ident}.enabled = {_b(flip)}\n")
            o = app.invoke(args + ["plugins", "list", "--all"])
            R.count("invocations")
            R.count("addressing_cases")
            cur = None
            for line in "".join(o.out).split("\n"):
                w = line.split()
                if w and w[0] == rid:
                    cur = w[-3]
            R.distinct.add(PL.mix("A", rid, ident, way) & 0xFFFFFFFFFFFF)
            if o.err or cur != str(flip):
                kind = "id" if ident == rid else ("ID-UPPER" if ident == rid.upper() else "name")
                out.append([f"A:{k}:{ident.lower() if kind != 'ID-UPPER' else 'ID-UPPER'}:{way}", f"identifier-has-no-effect:{kind}:{way}",
                            {"case": f"A:{k}", "rule": rid, "identifier": ident, "way": way, "wanted_enabled": flip, "plugins_list_says": cur, "stderr": o.errtext[:200]}])
            else:
                R.count("observations_agreeing_with_model")
    sb.clear_files()
    return out


# ------------------------------------------------------------------------------------------------
# V: the same precedence for a *setting* (not only for `enabled`): md013.line_length given a different value
# in each layer; the probe's lines of 25/40/60/80/100 characters show which value is in force
V_VALUES = {"set": 30, "config": 50, "default": 70, "pyproject": 90}
V_LENGTHS = [25, 40, 60, 85, 100]
N_V = 16 * 3 * 2


def run_value(ci, sb, app, R):
    bits, rest = ci % 16, ci // 16
    fmt, named = rest % 3, rest // 3
    key = "line-length" if named else "md013"
    present = {"set": bool(bits & 1), "config": bool(bits & 2), "default": bool(bits & 4), "pyproject": bool(bits & 8)}
    sb.clear_files()
    args = ["--log-level", "CRITICAL", "-d", "md041,md047"]
    fname, dname, dkind = FORMATS[fmt]
    if present["pyproject"]:
        sb.write("pyproject.toml", f"[tool.pymarkdown]\nplugins.{key}.line_length = {V_VALUES['pyproject']}\n")
    if present["default"]:
        if dkind == "json":
            sb.write(dname, json.dumps({"plugins": {key: {"line_length": V_VALUES["default"]}}}))
        else:
            sb.write(dname, f"plugins:\n  {key}:\n    line_length: {V_VALUES['default']}\n")
    if present["config"]:
        if fname == "json":
            sb.write("c.json", json.dumps({"plugins": {key: {"line_length": V_VALUES["config"]}}}))
            args += ["--config", "c.json"]
        elif fname == "yaml":
            sb.write("c.yaml", f"plugins:\n  {key}:\n    line_length: {V_VALUES['config']}\n")
            args += ["--config", "c.yaml"]
        else:
            sb.write("c.toml", f"[plugins.{key}]\nline_length = {V_VALUES['config']}\n")
            args += ["--config", "c.toml"]
    if present["set"]:
        args += ["--set", f"plugins.{key}.line_length=$#{V_VALUES['set']}"]
    want = next((V_VALUES[k] for k in ("set", "config", "default", "pyproject") if present[k]), 80)
    # short words, so that every over-long line has white space beyond every candidate limit (MD013 lets a
    # line pass when only its last word sticks out)
    probe = "\n\n".join((("ab " * 50)[: n - 1] + "c").replace(" c", "cc") for n in V_LENGTHS) + "\n"
    p = sb.write("probe.md", probe)
    o = app.invoke(args + ["scan", p])
    R.count("invocations")
    R.count("value_cases")
    pattern = "".join("SCDP"[i] if present[k] else "-" for i, k in enumerate(("set", "config", "default", "pyproject")))
    R.distinct.add(PL.mix("V", pattern, fmt, named) & 0xFFFFFFFFFFFF)
    fired = sorted(f[1] for f in o.failures if f[3] == "MD013")
    expect = [1 + 2 * i for i, n in enumerate(V_LENGTHS) if n > want]
    if (o.err and "Error" in o.errtext) or fired != expect:
        return [f"setting-precedence:{pattern}", {"case": f"V:{ci}", "layers(set,config,default-file,pyproject)": pattern, "addressed_as": key, "format": FORMATS[fmt][0],
                                                    "model_line_length": want, "md013_fired_on_lines": fired, "expected_lines": expect, "stderr": o.errtext[:200]}]
    R.count("observations_agreeing_with_model")
    return None


# ------------------------------------------------------------------------------------------------
# X: strict mode may be switched on/off in every layer; an invalid value stops the run iff it is on
BAD_VALUES = [("md013", "line_length", "notanumber", "--set"), ("md013", "line_length", "notanumber", "config"), ("md007", "indent", True, "config"), ("md029", "style", "$#3", "--set")]
_SC = None


def strict_cases():
    global _SC
    if _SC is None:
        _SC = [(flag, setv, cfg, dflt, pyp, b) for flag in (False, True) for setv in TRI for cfg in TRI for dflt in TRI for pyp in TRI for b in range(len(BAD_VALUES))]
    return _SC


def run_strict(ci, sb, app, R):
    flag, setv, cfg, dflt, pyp, b = strict_cases()[ci]
    rid, item, val, where = BAD_VALUES[b]
    sb.clear_files()
    args = ["--log-level", "CRITICAL", "-e", rid]
    if flag:
        args.append("--strict-config")
    if setv is not None:
        args += ["--set", f"mode.strict-config=$!{_b(setv).capitalize()}"]
    cdict = {}
    if cfg is not None:
        cdict["mode"] = {"strict-config": cfg}
    if where == "config":
        cdict["plugins"] = {rid: {item: val}}
    else:
        args += ["--set", f"plugins.{rid}.{item}={val}"]
    if cdict:
        sb.write("c.json", json.dumps(cdict))
        args += ["--config", "c.json"]
    if dflt is not None:
        sb.write(".pymarkdown", json.dumps({"mode": {"strict-config": dflt}}))
    if pyp is not None:
        sb.write("pyproject.toml", f"[tool.pymarkdown]\nmode.strict-config = {_b(pyp)}\n")
    want = flag or bool(model(None, setv, cfg, dflt, pyp, False))
    paths = [sb.write(f"p{j}.md", d) for j, d in enumerate(PROBES)]
    o = app.invoke(args + ["scan"] + paths)
    R.count("invocations")
    R.count("strict_cases")
    pattern = ("F" if flag else "-") + "".join("-" if x is None else ("T" if x else "F") for x in (setv, cfg, dflt, pyp))
    R.distinct.add(PL.mix("X", pattern, b) & 0xFFFFFFFFFFFF)
    R.see("strict_patterns", pattern)
    stopped = bool(o.err) and not o.failures and o.rc == 1
    v = set()
    detail = {"case": f"X:{ci}", "layers(flag,set,config,default-file,pyproject)": pattern, "invalid_value": [rid, item, val, where], "model_says_strict": want, "rc": o.rc, "stderr": o.errtext[:300], "failures": len(o.failures)}
    if want and not stopped:
        v.add(f"strict-on-but-run-continues:{pattern}")
    elif not want and (o.err or o.rc not in (0, 1)):
        v.add(f"strict-off-but-run-stops:{pattern}")
    elif not want:
        # lenient: must behave as the default configuration
        base = app.invoke(["--log-level", "CRITICAL", "-e", rid, "scan"] + paths)
        R.count("invocations")
        if base.fail_tuples(with_file=True) != o.fail_tuples(with_file=True):
            v.add("lenient-does-not-fall-back-to-default")
        else:
            R.count("observations_agreeing_with_model")
    else:
        R.count("observations_agreeing_with_model")
    if v:
        return [";".join(sorted(v)), detail]
    return None


def run_items(items, job):
    from vf import app, pm

    sb = app.Sandbox(job["work"])
    R = PL.Result()
    for it in items:
        if isinstance(it, dict):
            key, spec = it["key"], it["case"]
        else:
            key, spec = it, it
        cls, ci = spec.split(":")[:2]
        R.evals += 1
        if cls == "E":
            res = run_precedence(int(ci), precedence_cases()[int(ci)], sb, app, R)
            if res:
                R.viol.append([key, res[0], res[1]])
        elif cls == "X":
            res = run_strict(int(ci), sb, app, R)
            if res:
                R.viol.append([key, res[0], res[1]])
        elif cls == "V":
            res = run_value(int(ci), sb, app, R)
            if res:
                R.viol.append([key, res[0], res[1]])
        elif cls == "A":
            for vk, sig, detail in run_addressing(int(ci), sb, app, pm, R):
                R.viol.append([vk if key.startswith("A:") else key, sig, detail])
        else:
            for vk, sig, detail in run_settings(int(ci), sb, app, pm, R):
                R.viol.append([vk if key.startswith("S:") else key, sig, detail])
    sb.clear_files()
    return R.as_dict()
