"""C19 — file discovery selects exactly the documented set, once each, in sorted order.

Reference model (written from user-guide.md "Basic Scanning" / "Advanced Scanning"):
  * a path containing '*' or '?' is expanded with glob.glob (non-recursive flag); no match => error
  * a literal path: missing => error; a directory => the eligible files directly inside (all
    descendants with --recurse); a file => eligible iff its name ends with one of the extensions
    (default .md, case-sensitive; replaced by --alternate-extensions), otherwise error
  * glob results are treated like literal paths except that an ineligible *file* is simply not selected
  * result = each selected FILE once however many arguments reach it or however it is spelled, sorted
  * any error => nothing is scanned and the run ends with the no-files result; zero files => no-files result
Observed: `scan --list-files`, names in `scan` output (every generated file carries one failure),
`Fixed:` announcements of `fix`, PyMarkdownApi.list_path, and the exit code.
"""
import glob
import os
import re

from vf import universe as U
from vf.checks import parserlevel as PL
from vf.prng import R as PR

PROPERTY = "C19"
LEVEL = "exploration"
BASELINE = "C19"
REQUIRED_COUNTERS = ["invocations", "cases_compared", "files_selected_total"]
ASSUMPTIONS = ["the model is the documentation's; where it is silent (what is printed before an error) only the selected set and the result code are judged"]

N_CASES = 48000
CONTENT = "#  Title\n"   # MD019: reported by scan, fixed by fix

ENTRIES = [
    "a.md", "b.md", "B.MD", "c.txt", "d.markdown", "e f.md", "g[1].md", "h.md.bak", "sub/x.md", "sub/y.txt", "sub/z.MD",
    "sub/deep/w.md", "sub/deep/v.txt", "other/x.md", "other/n.md", "empty/", "md/", "sub/deep/deeper/u.md", "q?.md", "dir.md/",
]
ARGS = [
    ".", "a.md", "./a.md", "b.md", "sub", "sub/", "sub/../a.md", "ABS:a.md", "*.md", "sub/*.md", "*", "**", "nothere.md", "c.txt",
    "*.txt", "empty", "z*.md", "B.MD", "sub/deep", "s?b", "e f.md", "g[1].md", "*/x.md", "sub/x.md", "other", "?.md", "sub/deep/w.md",
    "*/*", "./sub/./x.md", "ABS:sub", "d.markdown", "g*.md", "dir.md", "other/../sub/x.md", "su*", "*.MD", "nothere", "empty/*",
]
# second family (cases E:i): redundant spellings of directories and files that overlap, and '**' globs with --recurse
ARGS2 = [
    "./sub", "sub/.", "sub/deep/..", "sub//deep", "./sub/x.md", "sub/./x.md", "sub/deep/../x.md", "./sub/deep", "./.", "sub/**/*.md", "**/*.md", "**/x.md",
    "**/w.md", "sub/**", "**/deep/*.md", "./*.md", "./sub/*.md", "other/./n.md", "./other", "sub/deep/./w.md", "**/**/*.md", "sub", "sub/x.md", "sub/deep/w.md",
    "other/x.md", "./a.md", "a.md", ".//a.md", "sub/deep/deeper/../w.md", "**",
]
N_E = 24000
AES = [None, ".txt", ".md,.markdown", ".MD", ".md,.txt"]
MODES = ["list", "scan", "fix", "api-list"]


def universe_hash():
    return U.content_hash()


def decode(i):
    r = PR(0x19000000 + i)
    n_entries = r.randint(2, 8)
    idx = sorted(set(r.below(len(ENTRIES)) for _ in range(n_entries)))
    tree = [ENTRIES[k] for k in idx]
    if i % 7 == 0 and "a.md" not in tree:
        tree.append("a.md")
    nargs = r.choice([1, 1, 2, 2, 3])
    args = [r.choice(ARGS) for _ in range(nargs)]
    recurse = r.chance(0.4)
    ae = r.choice(AES) if r.chance(0.35) else None
    mode = MODES[i % 4]
    return {"tree": tree, "args": args, "recurse": recurse, "ae": ae, "mode": mode}


def decode_e(i):
    from vf.prng import mix

    r = PR(mix("C19E", i))
    idx = sorted(set(r.below(len(ENTRIES)) for _ in range(r.randint(3, 9))))
    tree = [ENTRIES[k] for k in idx]
    for must in (["sub/x.md", "a.md"], ["sub/deep/w.md", "sub/x.md"], ["sub/deep/deeper/u.md", "sub/x.md", "other/x.md"])[i % 3]:
        if must not in tree:
            tree.append(must)
    nargs = r.choice([1, 2, 2, 3])
    args = [r.choice(ARGS2) if r.chance(0.85) else r.choice(ARGS) for _ in range(nargs)]
    return {"tree": tree, "args": args, "recurse": r.chance(0.55), "ae": (r.choice(AES) if r.chance(0.15) else None), "mode": MODES[i % 4]}


def plan(tier, seed, complete=False):
    if complete or tier == "thorough":
        idx = list(range(N_CASES))
        eidx = list(range(N_E))
    else:
        from vf.prng import R, mix

        idx = R(mix("C19", seed)).sample(N_CASES, 2200)
        eidx = R(mix("C19E", seed)).sample(N_E, 1400)
    return {
        "items": [f"D:{i}" for i in idx] + [f"E:{i}" for i in eidx],
        "zones": {"(tree, arguments, flags, mode) cases": {"universe": N_CASES, "run": len(idx)},
                  "redundant path spellings / overlapping arguments / '**' globs cases": {"universe": N_E, "run": len(eidx)}},
        "exhaustive": False,
        "rule": "case i = a generated directory tree (2-9 entries over 3 levels: eligible/ineligible/upper-case extensions, names with spaces and glob characters, "
        "empty and nested directories) x 1-3 path arguments in any spelling (relative, ./, .., absolute, globs) x --recurse x --alternate-extensions x "
        "{--list-files, scan, fix, list_path}; distinct = distinct (sorted selected set, error flag, mode)",
    }


def witness_item(k):
    return {"key": "W:" + k["id"], "case": k["witness"]["case"]}


def replay_item(rp):
    return {"key": str(rp["case"]), "case": rp["detail"]["case"]}


# ----------------------------------------------------------------------------- the reference model
def model(cwd, args, recurse, exts):
    """-> (error, set of real paths)"""
    sel = set()

    def eligible(p):
        return any(p.endswith(e) for e in exts)

    def add_dir(d):
        for name in sorted(os.listdir(d)):
            p = os.path.join(d, name)
            if os.path.isdir(p):
                if recurse:
                    add_dir(p)
            elif eligible(p):
                sel.add(os.path.realpath(p))

    def literal(p, from_glob):
        if not os.path.exists(p):
            return False
        if os.path.isdir(p):
            add_dir(p)
            return True
        if eligible(p):
            sel.add(os.path.realpath(p))
            return True
        return from_glob  # an ineligible file matched by a glob is just not selected

    old = os.getcwd()
    os.chdir(cwd)
    try:
        for a in args:
            if "*" in a or "?" in a:
                g = glob.glob(a)
                if not g:
                    return True, set()
                for p in g:
                    literal(p, True)
            elif not literal(a, False):
                return True, set()
    finally:
        os.chdir(old)
    return False, sel


_LINE = re.compile(r"^(.*?):\d+:\d+: [A-Z]+\d+: ")


def run_items(items, job):
    from pymarkdown.api import PyMarkdownApi, PyMarkdownApiException, PyMarkdownApiNoFilesFoundException

    from vf import app

    sb = app.Sandbox(job["work"])
    R = PL.Result()
    for it in items:
        if isinstance(it, dict):
            key, ci = it["key"], int(str(it["case"]).split(":")[-1])
            fam = str(it["case"]).split(":")[0] if ":" in str(it["case"]) else "D"
        else:
            key, ci = it, int(it.split(":")[1])
            fam = it.split(":")[0]
        c = decode_e(ci) if fam == "E" else decode(ci)
        R.evals += 1
        sb.clear_files()
        for e in c["tree"]:
            if e.endswith("/"):
                os.makedirs(os.path.join(sb.cwd, e), exist_ok=True)
            else:
                sb.write(e, CONTENT)
        args = [(os.path.join(sb.cwd, a[4:]) if a.startswith("ABS:") else a) for a in c["args"]]
        exts = (c["ae"] or ".md").split(",")
        err, want = model(sb.cwd, args, c["recurse"], exts)
        flags = (["-r"] if c["recurse"] else []) + (["-ae", c["ae"]] if c["ae"] else [])
        mode = c["mode"]
        v = set()
        detail = {"case": f"{fam}:{ci}", **c, "model_error": err, "model_selects": sorted(os.path.relpath(p, sb.cwd) for p in want)}
        got_paths = None
        rc = None
        if mode == "api-list":
            if len(args) != 1:
                mode = "list"
            else:
                try:
                    res = app.guarded(lambda: PyMarkdownApi().list_path(args[0], recurse_if_directory=c["recurse"], alternate_extensions=c["ae"] or ""))
                    got_paths = list(res.matching_files)
                    rc = 0
                except PyMarkdownApiNoFilesFoundException:
                    got_paths, rc = [], 1
                except PyMarkdownApiException as e:
                    got_paths, rc = [], 1
                    detail["api_exception"] = str(e)[:200]
                R.count("invocations")
        if mode == "list":
            o = app.invoke(["--log-level", "CRITICAL", "scan", "-l"] + flags + args)
            R.count("invocations")
            got_paths = [x for x in "".join(s + "\n" for s in o.out).split("\n") if x.strip()]
            rc = o.rc
            detail["stderr"] = o.errtext[:200]
        elif mode == "scan":
            o = app.invoke(["--log-level", "CRITICAL", "-d", "md041,md047,md022"] + ["scan"] + flags + args)
            R.count("invocations")
            got_paths = []
            for f in o.failures:
                if f[3] == "MD019":
                    got_paths.append(f[0])
            rc = o.rc
            detail["stderr"] = o.errtext[:200]
            if o.plugin_error or o.tokenization_error:
                R.skip("scan-error")
                continue
        elif mode == "fix":
            o = app.invoke(["--log-level", "CRITICAL", "fix"] + flags + args)
            R.count("invocations")
            got_paths = list(o.fixed)
            rc = o.rc
            detail["stderr"] = o.errtext[:200]
        R.count("cases_compared")
        got_real = [os.path.realpath(os.path.join(sb.cwd, p)) for p in got_paths]
        detail["reported"] = got_paths[:12]
        detail["rc"] = rc
        tag = c["mode"] if c["mode"] != "api-list" or len(args) == 1 else "list"
        if len(set(got_real)) != len(got_real):
            v.add(f"{tag}:same-file-processed-twice")
        if got_paths != sorted(got_paths):
            v.add(f"{tag}:not-sorted")
        if err:
            if got_real and tag != "list" and tag != "api-list":
                v.add(f"{tag}:files-processed-despite-argument-error")
            if rc == 0:
                v.add(f"{tag}:argument-error-exits-0")
            if tag in ("list", "api-list") and got_real:
                # documentation is silent on what is listed before the error; judged: result code only
                pass
        else:
            if set(got_real) != want:
                extra = set(got_real) - want
                missing = want - set(got_real)
                v.add(f"{tag}:selected-set-differs:" + ("+" if extra else "") + ("-" if missing else ""))
                detail["extra"] = sorted(os.path.relpath(p, sb.cwd) for p in extra)
                detail["missing"] = sorted(os.path.relpath(p, sb.cwd) for p in missing)
            want_rc = {"list": 0, "api-list": 0, "scan": 1, "fix": 3}[tag] if want else 1
            if rc != want_rc:
                v.add(f"{tag}:exit-code-{rc}-expected-{want_rc}:{'empty' if not want else 'nonempty'}-selection")
        R.count("files_selected_total", len(want))
        R.distinct.add(PL.mix("C19", ",".join(sorted(os.path.relpath(p, sb.cwd) for p in want)), err, tag) & 0xFFFFFFFFFFFF)
        if v:
            R.viol.append([key, ";".join(sorted(v)), detail])
        elif len(R.samples) < 2 and want:
            R.samples.append({"case": key, "tree": c["tree"], "args": c["args"], "recurse": c["recurse"], "ae": c["ae"], "mode": tag, "selected": detail["model_selects"]})
    sb.clear_files()
    return R.as_dict()
