"""Shared, in-process event log between the harness, the dispatcher-side wrappers and the
recording plugins (single-threaded: pymarkdown starts no threads)."""
import os
import sys

EVENTS = []
SPEC = {}
FAULT = None
ON_PARSE = None  # optional callback(source text, tokens) run at the moment the parser returns
PLUGIN_DIR = os.path.join(os.path.dirname(os.path.abspath(__file__)), "plugins")
MODULES = ("vfrec_first", "vfrec_last", "vfrec_off", "_vfrec_common")


def plugin_path(role):
    return os.path.join(PLUGIN_DIR, f"vfrec_{role}.py")


def configure(spec, fault=None):
    """spec: {role: {enabled, fix, level, callbacks}} ; fault: {role, at} or None."""
    global FAULT
    SPEC.clear()
    SPEC.update(spec)
    FAULT = dict(fault) if fault else None
    del EVENTS[:]
    for m in MODULES:
        sys.modules.pop(m, None)


_installed = False


def install_wrappers():
    """Dispatcher-side observation points (attribute replacement on the real classes)."""
    global _installed
    if _installed:
        return
    _installed = True
    from pymarkdown.general import source_providers
    from pymarkdown.general.tokenized_markdown import TokenizedMarkdown
    from pymarkdown.plugin_manager.plugin_manager import PluginManager

    orig_tfp = TokenizedMarkdown.transform_from_provider

    def tfp(self, source_provider, *a, **k):
        try:
            toks = orig_tfp(self, source_provider, *a, **k)
        except BaseException as e:
            EVENTS.append(("PARSE-ERR", type(e).__name__))
            raise
        EVENTS.append(("PARSE", list(toks), getattr(source_provider, "_vf_text", None), getattr(source_provider, "_vf_path", None)))
        if ON_PARSE is not None:
            # monitors must look at the tokens *now*: fix mode edits token objects in place afterwards
            ON_PARSE(getattr(source_provider, "_vf_text", None), toks)
        return toks

    TokenizedMarkdown.transform_from_provider = tfp

    FSP = source_providers.FileSourceProvider
    orig_init = FSP.__init__

    def fsp_init(self, file_to_open):
        orig_init(self, file_to_open)
        try:
            with open(file_to_open, encoding="utf-8") as f:
                self._vf_text = f.read()
        except Exception:
            self._vf_text = None
        self._vf_path = file_to_open
        EVENTS.append(("OPEN", file_to_open, self._vf_text))

    FSP.__init__ = fsp_init

    orig_snf = PluginManager.starting_new_file

    def snf(self, file_being_started, *a, **k):
        fix_mode = k.get("fix_mode", a[0] if a else False)
        EVENTS.append(("SNF", file_being_started, bool(fix_mode), tuple(k.get("constraint_id_list") or ()) ))
        return orig_snf(self, file_being_started, *a, **k)

    PluginManager.starting_new_file = snf

    import shutil

    orig_copy = shutil.copyfile

    def copyfile(src, dst, *a, **k):
        EVENTS.append(("COPY", str(src), str(dst)))
        return orig_copy(src, dst, *a, **k)

    shutil.copyfile = copyfile


def input_file_tracker(names):
    """Returns f(event) -> name of the input file currently being processed (or None), following
    source-provider opens, starting_new_file broadcasts and scratch copies of input files."""
    state = {"cur": None, "alias": {}}

    def step(e):
        k = e[0]
        if k == "COPY":
            b = os.path.basename(e[1])
            if b in names:
                state["alias"][e[2]] = b
        elif k == "OPEN":
            b = os.path.basename(e[1])
            if b in names:
                state["cur"] = b
            elif e[1] in state["alias"]:
                state["cur"] = state["alias"][e[1]]
        elif k == "SNF":
            b = os.path.basename(e[1])
            if b in names:
                state["cur"] = b
        return state["cur"]

    return step
