"""Eighth group of frozen universes (own content hash, baselines *.H).

Z21 — inline state carried from one block into a later block of the same document: an earlier block holding
      an unmatched / odd inline construct (a backtick run without a closer next to a longer run, an open
      emphasis run, an unfinished link, tag, comment, entity, autolink, definition) followed by a later block
      holding ordinary well-formed constructs of the same kinds.  Each block parses correctly on its own; the
      pairing x six block contexts (paragraphs, heading, list items, quote, setext, three blocks) is what a
      per-document cache or a missed per-block reset needs in order to show.
      Added after the fourth-round seeded change C03-r4m1 (a "no closing run of this length" cache in the code
      span parser, cleared per document instead of per text block) was missed.
"""
import hashlib
import os

from vf import universe as U

ARMERS = [
    "`foo``bar``", "``foo`bar", "`a", "```x`` y`", "a `` b ``` c", "````q``` ``", "*a **b", "_a __b_", "**a", "[a](", "[a][", "![a](b",
    '<a href="', "<!-- x", "&amp", "x\\", "<http://x", "~~a~", "[foo]: /u 'unterminated", "<b", "]]] ((", "*`a*`",
]
VICTIMS = [
    "some `code` here", "``a`b`` and `c`", "```c``` then ``d``", "*e* **s**", "[l](/u) [m](/v 't')", "<b> <!-- c --> x", "&amp; &#35; &copy;",
    "![i](/j)", "<http://x.y> <a@b.c>", "_e_ __s__", "`` ` `` x ```y```", "[r][] and [r]\n\n[r]: /ref",
]


def _docs():
    out = []
    for ai, a in enumerate(ARMERS):
        for vi, v in enumerate(VICTIMS):
            vlast = v.split("\n\n")
            v0, vrest = vlast[0], ("\n\n" + "\n\n".join(vlast[1:]) if len(vlast) > 1 else "")
            for c in range(6):
                if c >= 3 and (ai + vi + c) % 2:
                    continue
                if c == 0:
                    d = a + "\n\n" + v0 + "\n" + vrest
                elif c == 1:
                    d = "# " + a + "\n\n" + v0 + "\n\n## " + v0 + "\n" + vrest
                elif c == 2:
                    d = "- " + a + "\n- " + v0 + "\n" + vrest
                elif c == 3:
                    d = "> " + a + "\n\n" + v0 + "\n" + vrest
                elif c == 4:
                    d = a + "\n===\n\n" + v0 + "\n---\n" + vrest
                else:
                    d = a + "\n\n" + ARMERS[(ai + 7) % len(ARMERS)] + "\n\n" + v0 + "\n\n" + a + "\n\n" + v0 + "\n" + vrest
                out.append(d if d.endswith("\n") else d + "\n")
    return out


_Z21 = _docs()
U.ZONES["Z21"] = (lambda i: _Z21[i], lambda: len(_Z21))


def content_hash():
    h = hashlib.sha256()
    here = os.path.dirname(os.path.abspath(__file__))
    for p in (os.path.abspath(__file__), os.path.join(here, "prng.py")):
        with open(p, "rb") as f:
            h.update(f.read())
    return h.hexdigest()[:16]
