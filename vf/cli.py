import sys

from vf import runner


def main():
    a = sys.argv[1:]
    if len(a) < 2:
        print("usage: vcheck <ID> <quick|thorough|baseline> [--replay path]")
        return 2
    if a[0] == "selftest":
        from vf import env
        env.setup_path()
        from vf.checks import selftest
        return selftest.main()
    replay = None
    if "--replay" in a:
        replay = a[a.index("--replay") + 1]
    return runner.main(a[0], a[1], replay=replay)


if __name__ == "__main__":
    sys.exit(main())
