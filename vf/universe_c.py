"""Third group of frozen universes (own content hash, baselines *.C).

Z9 — emphasis x link interplay: delimiter runs before, inside and after link / image text, the place
where the "openers below the bracket are out of reach" rule of the specification matters.  Added after the
seeded change C03-m1 (a closer inside link text pairing with an opener before the '[') was caught by a
single document of the quick tier only.
"""
import hashlib
import os

from vf import universe as U
from vf.prng import R

PRE = ["", "*a ", "**a ", "_a ", "*", "a*", "__a ", "a **b** *", "`c` *"]
PARTS = ["b", "*c*", "d*", "*e", "**f**", "_g_", "`h`", "![i](/j)", "[k]", " ", "__l", "m__", "*", "**", "<n>", "\\*"]
POST = ["", "*", " z*", "**", "_", " *y* z", "__ w", "* **"]
KIND = ["](/u)", "][r]", "][]", "]", "](/u \"t\")", "](<u v>)"]
Z9_SIZE = 120000


def z9(i):
    r = R(0x9000000 + i)
    pre = PRE[i % len(PRE)]
    kind = KIND[(i // len(PRE)) % len(KIND)]
    post = POST[(i // (len(PRE) * len(KIND))) % len(POST)]
    n = r.randint(1, 4)
    text = "".join(r.choice(PARTS) if j == 0 else r.choice(["", " "]) + r.choice(PARTS) for j in range(n))
    img = "!" if r.chance(0.12) else ""
    body = pre + img + "[" + text + kind + post
    if r.chance(0.15):
        body += " [" + r.choice(PARTS) + "](/v)" + r.choice(POST)
    ctx = r.below(10)
    if ctx == 0:
        body = "> " + body
    elif ctx == 1:
        body = "- " + body
    elif ctx == 2:
        body = "# " + body
    s = body + "\n"
    if "[r]" in s or kind in ("][]", "]"):
        s += "\n[r]: /ref\n[" + text.replace("\n", " ") + "]: /self\n" if r.chance(0.5) else "\n[r]: /ref\n"
    return s


U.ZONES["Z9"] = (z9, lambda: Z9_SIZE)


def content_hash():
    h = hashlib.sha256()
    for p in (os.path.abspath(__file__), os.path.join(os.path.dirname(os.path.abspath(__file__)), "prng.py")):
        with open(p, "rb") as f:
            h.update(f.read())
    return h.hexdigest()[:16]
