"""Developer tool: write MANIFEST.json from the check modules' own metadata."""
import importlib
import json
import os

from vf import env

TEXT = {
    "C01": ("exploration", "runtime monitor on TokenizedMarkdown.transform: outcome + deterministic work count (sys.monitoring PY_START) under a step budget",
            "Every parse in the frozen universes Z1-Z21 (quick: seed-chosen indices; thorough: all 3.72 M documents) must return tokens within K*(n+64)^2 counted function entries and within 20 s of process CPU time (work inside C extensions), and 51 scaling families must grow with exponent <= 2.3. Held on the documents explored; nothing is proved for documents outside the universes.", "4 C01"),
    "C02": ("exploration", "identity oracle regenerate(parse(d)) == d evaluated on every successful parse of the workload",
            "Round-trip identity checked character for character on every explored document of Z1-Z21 and on every intermediate document the application parses while fixing (FX workload); exhaustive only over the frozen universes when the thorough tier runs.", "4 C02"),
    "C03": ("exploration", "differential oracle: normalised HTML event stream vs vendored markdown-it-py (independent CommonMark implementation)",
            "Agreement with an independent implementation on every explored document on which the comparator does not abstain; inherits the reference's correctness outside the neutralised quirks.", "4 C03"),
    "C04": ("exploration", "independent stack automaton replayed over every token list the real parser returns",
            "Nesting discipline checked on every explored parse of Z1-Z21 and on the internal parses of fix runs (FX workload); the tokens rules receive are identical objects (checked by C14).", "4 C04"),
    "C05": ("exploration", "position oracle (line exists, column in range, block order, opening text at the position) over every position-carrying token",
            "Positions checked against the source text on every explored parse (Z1-Z21 incl. two generations of multi-line inline constructs and tab shapes, FX workload); text tokens by range only.", "4 C05"),
    "C06": ("exploration", "differential: real single-rule scans vs executable transcriptions of each rule's documented condition over an independent parse (three-valued)",
            "23 rules x their documented configuration values (incl. every ordering of MD013's three limits, MD012 maximum 0..3) on documents where both parsers agree; the oracle abstains where the rule's page is silent.", "4 C06"),
    "C07": ("exploration", "monitor on real scan runs: plugin errors, range / uniqueness / order of every report, repeat in the same and in a fresh process",
            "Every report of every explored scan (default rules, all rules, two single rules; documents incl. tab shapes and pragma-carrying rule triggers) is range-checked, order-checked and compared with a repeat run; every fourth document is also scanned after a many-block history document in the same invocation and must report the same.", "4 C07"),
    "C08": ("exploration", "differential through an independent renderer: content fingerprint (markdown-it tokens) of the file before vs after a real fix run",
            "Fingerprint equality on every explored (document, rule configuration) whose fix changed the file; documents include tab shapes and rule triggers with wrapped inline elements and pragma comment lines (group D).", "4 C08"),
    "C09": ("exploration", "fixed-point monitor: fix(fix(d)) == fix(d), second run silent, scan(fix(d)) has no fix-capable failure",
            "Three configurations per explored document (default, one rule, a pair); documents include tab shapes and lines needing several line-level fixes (group D).", "4 C09"),
    "C10": ("exploration", "file-system monitor (SHA-256 snapshots of private cwd + TMPDIR, audit hook on write-opens) around real scan / list / stdin / fix runs",
            "bytes changed <=> announced <=> exit code, and read-only-ness of scan, on every explored 1-3 file case in both schemes; third family (T, always complete): 672 cases of trailing white space x leaf kind x MD009 settings x scheme (a fix condition broader than the scan condition); second family: CR-LF / CR / mixed line endings x {CLI fix, API fix_path, API fix_string} x both schemes (files_fixed / was_fixed must say exactly what changed, clean files stay byte-identical).", "4 C10"),
    "C11": ("exploration", "metamorphic monitor: document with one to three pragma lines inserted vs the original (tokens shifted; failures minus exactly the suppressed set; fix(d') keeps the pragma lines in place and equals fix(d) elsewhere)",
            "Explored insertion points include paragraphs, code blocks and containers; both prefixes, ids and aliases, several rules per pragma in either order, adjacent pragmas, several N, malformed forms; the fix-mode clause runs on half of the single-pragma cases, on every multi-pragma case and on hand-written regression documents.", "4 C11"),
    "C12": ("exploration", "multiset comparison of reports: all rules vs each of the 46 rules alone vs default vs default minus one",
            "Union property checked on every explored document, incl. documents with a pragma on top and documents with a multi-rule disable-next-line pragma in front of the line on which most rules fire (named in report order and reversed).", "4 C12"),
    "C13": ("exploration", "history monitor: per-file output of one invocation over (A,B[,C]) vs separate invocations; every kind of call on one reused API object vs a fresh object",
            "All ordered pairs of an 88-document state-bearing pool in thorough (7744) plus 6000 triples; scan and fix; 64 sequences of 14 mixed API calls (scan_path, scan_string, fix_string, fix_path, list_path).", "4 C13"),
    "C14": ("exploration", "online trace checker over the call logs of recording rule plugins merged with dispatcher-side events",
            "Trace language S T* L* C per file and recorder (object identity of tokens, exactly one end-of-stream token last, exact line text), fix-mode passes, disabled recorder silent, passive recorder must not change fix output; thorough enumerates all 14700 variant cases.", "4 C14"),
    "C15": ("fault_enumeration", "fault injection: exception at the k-th plugin callback / j-th parser invocation, undecodable file at each position, SIGKILL (strace inject) at each syscall on the target during write-back",
            "Every fault point of the frozen tables (39744 in-process cases incl. runs where the failing file defines the links a later file uses or leaves a rule inside a list, 192 kill points) in thorough; quick samples them. Judged: exit category, file named, other files unaffected (reports, bytes and no error attributed to them), file bytes in {original, fully fixed}, temp dir empty.", "4 C15"),
    "C16": ("exploration", "differential between code paths: file scan, scan-stdin, scan_string, scan_path, CLI processes, fix vs fix_string; diagnostics on/off",
            "Same failures / fixed text / fixed flag through every entry point on every explored document and line-ending variant, every fourth under the minimal return-code scheme; verbose log levels (CLI and API) on every 40th document and on every document containing the logger's substitution character.", "4 C16"),
    "C17": ("exploration", "executable precedence model vs `plugins list` and probe scans over the enumerated layer lattice; strict/lenient cross-check for every configuration item",
            "Both tiers enumerate all 4374 layer assignments x naming x format (unset layers are absent or exist-but-silent), every configuration item of all 46 rules, every identifier (id, upper-case id, each name) of every rule in each of the five layers, and strict mode switched on/off in every layer (648 cases) with an invalid value present.", "4 C17"),
    "C18": ("exploration", "scenario table vs SystemExit code, the category seen at exit_application (hook) and real process exit status",
            "Every scenario (incl. 3-file mixtures in each order) x 2 schemes x 8 ways of choosing the scheme (4 single sources, 4 pairs of sources that disagree) in thorough.", "4 C18"),
    "C19": ("exploration", "reference model of the documented selection rules vs --list-files / scan / fix / list_path on generated trees",
            "48000 (tree, arguments, flags, mode) cases plus 24000 cases of redundant path spellings, overlapping arguments and '**' globs in the frozen universe; quick samples 3600.", "4 C19"),
    "C20": ("exploration", "differential between extension configurations of the real parser; front-matter shift oracle; disabled extensions vs CommonMark reference",
            "Each extension alone / all / none on documents split by trigger predicates; front-matter blocks valid (mappings, falsy values included) and invalid (malformed, non-mapping YAML); history family (18 cases): default-enabled run before and after a run with multi-entry settings in the same process must agree; every extension switched off with valid / invalid / wrongly typed settings left over (lenient and strict).", "4 C20"),
}
NOTE = "trusted base: the monitors and oracles in /verif/vf, CPython 3.12's sys.monitoring/audit hooks, and (C03/C06/C08/C20) vendored markdown-it-py; known genuine defects of the pinned tree are listed in known_findings.json + baseline/*.json.gz (frozen-universe inputs) and reported as KNOWN-FINDING, anything else is a VIOLATION"


def main():
    checks = []
    for i in range(1, 21):
        pid = f"C{i:02d}"
        lvl, tech, text, ref = TEXT[pid]
        checks.append({
            "property_id": pid,
            "quick_cmd": f"./vcheck {pid} quick",
            "thorough_cmd": f"./vcheck {pid} thorough",
            "evidence_file": f"evidence/{pid}.json",
            "replay_cmd_template": f"./vcheck {pid} replay --replay {{path}}",
            "engine": "vf",
            "level_claimed": {"category": lvl, "text": text, "design_ref": f"DESIGN.md section {ref}"},
            "level_note": NOTE,
            "technique": tech,
        })
    m = {
        "version": 1,
        "setup_cmd": "/venv/bin/python -m compileall -q vf >/dev/null 2>&1; ./vcheck selftest quick",
        "hooks": {
            "guard": "PYMARKDOWN_VERIF",
            "enable": "no source hooks: all instrumentation is attached from outside (attribute wrapping of the real classes, --add-plugin recorder rules, sys.monitoring, audit hooks, strace); the guard name is reserved and unused",
            "baseline_off_cmd": "cd /repo && /venv/bin/python -m pytest -ra -q -p no:cacheprovider --timeout=900 --continue-on-collection-errors",
            "source_commits": [],
            "add_only": True,
        },
        "engines": [{"name": "vf", "path": "vf/", "serves_properties": [f"C{i:02d}" for i in range(1, 21)],
                     "kind_free_text": "runtime monitors on the real code under frozen-universe workloads, reference-model oracles, fault injection; three-valued verdicts"}],
        "checks": checks,
        "notes": "Sanitizers / race detectors do not apply (pure single-threaded Python, see DESIGN.md 1). Six fix: commits repair genuine defects found by C07/C14/C15/C18/C19 (see known_findings.json, status fixed).",
        "not_applicable": [],
    }
    json.dump(m, open(os.path.join(env.VERIF, "MANIFEST.json"), "w"), indent=1)


if __name__ == "__main__":
    main()
