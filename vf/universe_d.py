"""Fourth group of frozen universes (own content hash, baselines *.D).

Added after the second round of independently written breaking changes showed which input dimensions
the first three groups did not span:

Z10 — multi-line inline elements, second generation: reference links whose *label* (not only text) is
      broken over lines, inline links / images broken at every legal place, multi-line raw HTML of every
      kind, several such elements per paragraph, continuation lines with *different* indentation, and
      positioned inline elements after them.
Z11 — tab shapes: a tab wherever the specification allows white space after / before a block marker
      ('##<TAB>x', '-<TAB>x', '>\t', tab-indented code, tabs inside fences and definitions), alone and mixed
      with spaces, plus lines with a tab in the middle and blanks at the end.
Z12 — rule-trigger documents with rich payloads: the Z7 snippets plus list items carrying multi-line
      images / links / code spans, adjacent lists with different markers, '$' text, headings with tabs,
      lines that pass a length limit only by trailing blanks; half of the documents carry one to three
      pragma comment lines (single, multi-rule, num-lines, disable/enable, malformed), often adjacent.
"""
import hashlib
import os

from vf import universe as U
from vf import universe_b as UB
from vf.prng import R, mix


def _w(r):
    return r.choice(["a", "b c", "x", "lorem", "né", "d-e"])


# ------------------------------------------------------------------ Z10
def _nl(r):
    return r.choice(["\n", "\n", " \n", "\n "])


def _z10_elem(r, need):
    w = lambda: _w(r)  # noqa: E731
    k = r.below(14)
    if k == 0:
        need.add("la bel")
        return "[" + w() + "][la" + _nl(r) + "bel]"
    if k == 1:
        need.add("la bel")
        return "[" + w() + _nl(r) + w() + "][la" + _nl(r) + "bel]"
    if k == 2:
        need.add("la bel")
        return r.choice(["", "!"]) + "[la" + _nl(r) + "bel]" + r.choice(["[]", "", "[]"])
    if k == 3:
        need.add("r")
        return "![" + w() + r.choice(["", "\n"]) + w() + "][r]"
    if k in (4, 5):
        ws = lambda: r.choice(["", "", " ", "\n", " \n", "\n "])  # noqa: E731
        text = r.choice([w(), w() + "\n" + w(), "*" + w() + "*", "`" + w() + "`", "![i\nj](/k)"])
        dest = r.choice(["/u", "</u>", "<u v>", "/u(v)w"])
        title = r.choice(["", '"t"', "'t\nu'", "(t\nu)", '"t  u"'])
        sep = (ws() or " ") if title else ""
        return ("!" if k == 5 else "") + "[" + text + "](" + ws() + dest + sep + title + ws() + ")"
    if k == 6:
        return "<a" + r.choice(["\n", " ", "\n ", " \n  "]) + "href='x'" + r.choice(["", "\n", " ", "\nb=\"c\nd\""]) + r.choice([">", "/>", "\n>"])
    if k == 7:
        return r.choice(["</a\n>", "<!-- c\nd -->", "<?p\nq?>", "<![CDATA[e\nf]]>", "<!DOCTYPE\nx>", "<!--\n-->"])
    if k == 8:
        bt = "`" * r.choice([1, 2, 3])
        return bt + w() + r.choice(["\n", " \n", "\n  ", " "]) + w() + bt
    if k == 9:
        m = r.choice(["*", "**", "_", "__"])
        return m + w() + r.choice(["\n", " "]) + w() + m
    if k == 10:
        return w() + r.choice(["  \n", "\\\n", "\n", "   \n"]) + w()
    if k == 11:
        return r.choice(["<http://x.y/z>", "<m@n.o>", "&amp;", "&#35;", "\\*", "\\[", "<b>", "</b>"])
    if k == 12:
        need.add("r")
        return "[" + w() + "][r]"
    return r.choice(["[l](/m)", "*e*", "`c`", "![i](/j)", "**s**", w()])


Z10_SIZE = 120000


def z10(i):
    r = R(mix("Z10", i))
    need = set()
    parts = [_z10_elem(r, need) for _ in range(r.randint(2, 4))]
    tail = r.choice(["*x*", "`c`", "<i>", "[l](/m)", "<http://x.y>", "![i](/j)", "**s**", "end", "end *y* `z`"])
    body = ""
    for p in parts:
        body += p + r.choice([" ", " ", " ", "\n", " mid "])
    body += tail
    if r.chance(0.3):
        body = r.choice(["a", "lead in", "*e*"]) + " " + body
    lines = body.split("\n")
    # paragraph continuation lines: any leading indentation is legal and is stripped
    ind = r.below(3)
    if ind:
        lines = [lines[0] if r.chance(0.6) else " " * r.randint(0, 3) + lines[0]] + [
            " " * r.choice([0, 1, 2, 3, 3, 4, 6]) + x if x.strip() else x for x in lines[1:]
        ]
    ctx = r.below(10)
    if ctx == 0:
        pre = r.choice(["> ", ">", ">  "])
        lines = [pre + x if not r.chance(0.15) or j == 0 else x for j, x in enumerate(lines)]
    elif ctx == 1:
        lines = ["- " + lines[0]] + [("  " if not r.chance(0.15) else "") + x for x in lines[1:]]
    elif ctx == 2:
        lines = ["1. " + lines[0]] + ["   " + x for x in lines[1:]]
    elif ctx == 3:
        lines = lines + [r.choice(["===", "---"])]
    elif ctx == 4:
        lines = ["> - " + lines[0]] + [">   " + x for x in lines[1:]]
    elif ctx == 5:
        lines = ["- > " + lines[0]] + ["  > " + x for x in lines[1:]]
    s = "\n".join(lines)
    if r.chance(0.8):
        s += "\n"
    if need:
        if not s.endswith("\n"):
            s += "\n"
        s += "\n" + "".join(f"[{x}]: /ref-{x[0]}\n" for x in sorted(need))
    return s


U.ZONES["Z10"] = (z10, lambda: Z10_SIZE)


# ------------------------------------------------------------------ Z11
def _gap(r):
    """white space after a block marker: tabs, spaces and mixtures"""
    return r.choice(["\t", "\t", "\t", " \t", "\t ", "\t\t", "  \t", " ", "   \t"])


def _z11_snip(r):
    w = lambda: r.choice(["alpha", "beta", "x", "a b"])  # noqa: E731
    g = lambda: _gap(r)  # noqa: E731
    k = r.below(18)
    if k == 0:
        return ["#" * r.randint(1, 3) + g() + w() + r.choice(["", g() + "#", "\t", " #\t", "\t##"])]
    if k == 1:
        m = r.choice("-*+")
        return [m + g() + w(), r.choice(["\t" + w(), "  " + w(), m + g() + w(), "\t" + m + g() + w()])]
    if k == 2:
        d = r.choice(["1.", "2)", "10."])
        return [d + g() + w(), r.choice(["\t" + w(), "   " + w(), d + g() + w(), "\t- " + w()])]
    if k == 3:
        return [r.choice([">", " >", ">>"]) + g() + w(), r.choice([">" + g() + w(), ">\t\t" + w(), w(), ">" + g() + "- " + w()])]
    if k == 4:
        pre = [w(), ""] if r.chance(0.5) else []
        return pre + [r.choice(["\t", " \t", "  \t", "   \t", "    \t", "\t\t"]) + "code" + r.choice(["", "\t", "\tx"]), r.choice(["\tmore", "    more", "\t", ""])]
    if k == 5:
        f = r.choice(["```", "~~~"])
        return [f + r.choice(["", "\t", "\tpy", " py\t"]), r.choice(["\tcode", "co\tde", "code\t"]), f + r.choice(["", "\t", " \t"])]
    if k == 6:
        return [w() + "\t" + w() + r.choice(["  ", " ", "\t", "   ", "\t "]), w() + r.choice(["", "  ", "\t"])]
    if k == 7:
        return [w() + r.choice(["\t", " \t", ""]), r.choice(["===", "---"]) + r.choice(["\t", " \t", ""])]
    if k == 8:
        c = r.choice("-*_")
        return [c + "\t" + c + "\t" + c + r.choice(["", "\t"])]
    if k == 9:
        m = r.choice(["-", "1."])
        return [m + g() + r.choice(["> q", "# h", "\tcode", "```", "- n", "1. o"]), r.choice(["\t" + w(), "  " + w(), ""])]
    if k == 10:
        return ["<div>" + r.choice(["\t", ""]), "\t" + w(), "</div>"]
    if k == 11:
        return ["[a]:" + r.choice(["\t", " \t", "\t\t"]) + "/u" + r.choice(["", "\t'title'", "\t\"t\"\t"]), "", "[a]" + r.choice(["", "\t", " [a]"])]
    if k == 12:
        return [w() + " [a](" + r.choice(["\t", ""]) + "/u" + r.choice(["\t", "\t\"t\"", ""]) + ") `c\td`" + r.choice(["", " *e\tf*"])]
    if k == 13:
        m = r.choice("-*+")
        return [m + " " + w(), "\t" + m + " " + w(), "\t\t" + m + " " + w(), r.choice(["\t\t" + w(), "\t" + w(), m + "\t" + w()])]
    if k == 14:
        return [">" + g() + r.choice(["# h", "- i", "\tcode", "```"]), ">" + r.choice(["\t", " \t", ""]) + w()]
    if k == 15:
        return [r.choice([" ", "  ", "   "]) + "#" + g() + w(), "", r.choice(["\t", ""]) + w() + "\t"]
    if k == 16:
        return ["- a", "", r.choice(["\t", "  \t", " \t"]) + w(), "", r.choice(["\t\t", "\t    ", "      "]) + "code"]
    return [w() + " " + w(), w()]


Z11_SIZE = 60000


def z11(i):
    r = R(mix("Z11", i))
    blocks = [_z11_snip(r) for _ in range(r.choice([1, 1, 2, 2, 3]))]
    lines = []
    for b in blocks:
        if lines and r.chance(0.8):
            lines.append("")
        lines.extend(b)
    wrap = r.below(14)
    if wrap == 0:
        lines = [(">" if x == "" else "> " + x) for x in lines]
    elif wrap == 1:
        lines = [(">" if x == "" else ">\t" + x) for x in lines]
    elif wrap == 2:
        lines = ["- " + lines[0]] + [("" if x == "" else "  " + x) for x in lines[1:]]
    elif wrap == 3:
        lines = ["-\t" + lines[0]] + [("" if x == "" else "\t" + x) for x in lines[1:]]
    elif wrap == 4:
        lines = ["1.\t" + lines[0]] + [("" if x == "" else r.choice(["\t", "    "]) + x) for x in lines[1:]]
    s = "\n".join(lines)
    if r.chance(0.85):
        s += "\n"
    return s


U.ZONES["Z11"] = (z11, lambda: Z11_SIZE)


# ------------------------------------------------------------------ Z12
RULE_IDS = ["md009", "md010", "md012", "md013", "md019", "md022", "md030", "md031", "md032", "md047", "md004", "md007", "md027", "md041",
            "no-trailing-spaces", "line-length", "blanks-around-fences", "no-hard-tabs", "md999x"]


def _pragma(r):
    a, b = r.choice(RULE_IDS), r.choice(RULE_IDS)
    k = r.below(12)
    if k <= 3:
        body = "disable-next-line " + a
    elif k == 4:
        body = "disable-next-line " + a + "," + b
    elif k == 5:
        body = "disable-next-line " + a + ", " + b + "," + r.choice(RULE_IDS)
    elif k == 6:
        body = "disable-num-lines " + str(r.randint(1, 4)) + " " + a
    elif k == 7:
        body = "disable-num-lines " + str(r.randint(1, 3)) + " " + a + "," + b
    elif k == 8:
        body = "disable " + a
    elif k == 9:
        body = "enable " + a
    elif k == 10:
        body = r.choice(["disable-next-line", "disable-num-lines x " + a, "bogus " + a, "disable-num-lines 0 " + a, ""])
    else:
        body = "disable-next-line " + a.upper()
    return r.choice(["<!-- pyml ", "<!-- pyml ", "<!--- pyml ", "<!--  pyml "]) + body + r.choice(["-->", " -->", "-->", "-->  "])


def _rich(r):
    w = lambda: r.choice(["alpha", "beta", "gamma", "x"])  # noqa: E731
    sp = lambda a, b: " " * r.randint(a, b)  # noqa: E731
    k = r.below(16)
    m = r.choice("-*+")
    if k == 0:  # list item with a wrapped image / link / code span / raw HTML, then further items
        el = r.choice(["![a long", "[a long", "`a long", "<a href='u'", "![a *long*"])
        close = {"![a long": "description](/image.png)", "[a long": "label](/u)", "`a long": "span`", "<a href='u'": "title='t'>", "![a *long*": "text][ref]"}[el]
        out = [m + " first " + el, "  " + close + " here"]
        if r.chance(0.6):
            out += ["", "  second paragraph"]
        out += [m + sp(1, 3) + "second item", sp(2, 4) + "more of it"]
        if el.endswith("*long*"):
            out += ["", "[ref]: /r"]
        return out
    if k == 1:  # ordered variant inside a quote
        return ["> 1. one ![a", ">    b](/c) d", ">", ">    para", "> 1." + sp(1, 3) + "two"]
    if k == 2:  # lists that run into each other
        a, b = r.choice(["*+", "-*", "+-", "*-"])
        return [a + " a", b + " b"] + ([a + " c"] if r.chance(0.5) else [])
    if k == 3:
        return ["cost is $5 and $HOME " + w(), "", "$x$ " + w() + " $"]
    if k == 4:
        return ["#" * r.randint(1, 3) + r.choice(["\t", "\t\t", " \t", "  "]) + w()]
    if k == 5:
        return [w() + "\t" + w() + sp(1, 3), w() + sp(0, 2) + "\t", "\t" + w() + sp(0, 3)]
    if k == 6:  # passes 80 columns only through trailing blanks
        n = r.randint(74, 80)
        body = (" ".join(["word"] * 30))[:n].rstrip()
        return [body + " " * r.randint(1, 8), w()]
    if k == 7:  # fence needing blank lines, followed by text
        f = r.choice(["```", "~~~"])
        return [w(), f + r.choice(["", "text"]), "code", f, r.choice(["**" + w() + "**", w()])]
    if k == 8:
        return [m + sp(1, 3) + w(), sp(2, 5) + m + sp(1, 3) + w(), "", sp(2, 4) + w()]
    if k == 9:
        return ["# " + w(), w(), "## " + w() + " ##", "#### " + w()]
    if k == 10:
        return [">" + sp(1, 3) + w(), ">" + sp(0, 2) + m + sp(1, 3) + w(), ">" + sp(3, 5) + w()]
    if k == 11:
        return [w() + "  ", w() + " \\", w() + "\\", w() + "   "]
    if k == 12:
        return ["1. a", "1. b", "3. c", "", "0. d", "1. e"]
    if k == 13:
        return ["Setext " + w() + sp(0, 2), r.choice(["===", "---", "=", "--"]) + sp(0, 2), w()]
    if k == 14:
        return ["<!-- plain comment -->", w(), "<!-- pyml-like but not -->"]
    return UB._snip(r)


Z12_SIZE = 60000


def z12(i):
    r = R(mix("Z12", i))
    blocks = []
    for _ in range(r.choice([1, 2, 2, 3, 3, 4])):
        blocks.append(_rich(r) if r.chance(0.6) else UB._snip(r))
    lines = []
    for b in blocks:
        if lines and r.chance(0.75):
            lines.append("")
        lines.extend(b)
    wrap = r.below(14)
    if wrap == 0:
        lines = [(">" if x == "" else "> " + x) for x in lines]
    elif wrap == 1:
        lines = ["- " + lines[0]] + [("" if x == "" else "  " + x) for x in lines[1:]]
    elif wrap == 2:
        lines = ["1. " + lines[0]] + [("" if x == "" else "   " + x) for x in lines[1:]]
    if r.chance(0.5):
        for _ in range(r.choice([1, 1, 2, 2, 3])):
            at = r.randint(0, len(lines))
            lines.insert(at, _pragma(r))
            if r.chance(0.4):
                lines.insert(at + r.choice([0, 1]), _pragma(r))
    s = "\n".join(lines)
    if r.chance(0.85):
        s += "\n"
    return s


U.ZONES["Z12"] = (z12, lambda: Z12_SIZE)


def content_hash():
    h = hashlib.sha256()
    here = os.path.dirname(os.path.abspath(__file__))
    for p in (os.path.abspath(__file__), os.path.join(here, "universe_b.py"), os.path.join(here, "prng.py")):
        with open(p, "rb") as f:
            h.update(f.read())
    return h.hexdigest()[:16]
