"""C03 oracle: compare pymarkdown's rendered HTML with an independent CommonMark implementation.

Both HTML strings are parsed into event streams; whitespace between block tags is insignificant
(the property says so); attributes are order-normalised; character references in text are
decoded.  Known deviations of the *oracle* are neutralised here (never in pymarkdown's favour).
"""
import re
import unicodedata
from html.parser import HTMLParser

from markdown_it import MarkdownIt

_MD = MarkdownIt("commonmark")

BLOCK = {
    "address", "article", "aside", "blockquote", "details", "div", "dl", "fieldset", "figure", "footer", "form",
    "h1", "h2", "h3", "h4", "h5", "h6", "header", "hr", "li", "main", "nav", "ol", "p", "pre", "section", "table", "ul",
}
VOID = {"br", "hr", "img"}


class _P(HTMLParser):
    def __init__(self):
        super().__init__(convert_charrefs=True)
        self.ev = []

    def handle_starttag(self, t, a):
        self.ev.append(("s", t, tuple(sorted((k, "" if v is None else v) for k, v in a))))

    def handle_startendtag(self, t, a):
        self.ev.append(("s", t, tuple(sorted((k, "" if v is None else v) for k, v in a))))
        self.ev.append(("e", t))

    def handle_endtag(self, t):
        self.ev.append(("e", t))

    def handle_data(self, d):
        self.ev.append(("t", d))

    def handle_comment(self, d):
        self.ev.append(("c", d))

    def handle_decl(self, d):
        self.ev.append(("d", d))

    def handle_pi(self, d):
        self.ev.append(("pi", d))

    def unknown_decl(self, d):
        self.ev.append(("ud", d))


_UNCLOSED = re.compile(r"\s+(?=<!--|<\?|<!\[CDATA\[)")
_RAWK = ("c", "d", "pi", "ud")
_NLWS = re.compile(r"[ \t]*\n[ \t]*")
_WSRUN = re.compile(r"\s+")


def _nl(s):
    """Spaces/tabs next to a line ending are insignificant (and differ between the reference
    implementations themselves: cmark strips the leading whitespace of continuation lines before
    inline parsing, commonmark.js does not)."""
    return _NLWS.sub("\n", s)


def events(h):
    p = _P()
    p.feed(h)
    p.close()
    ev = []
    for e in p.ev:
        if e[0] == "e" and e[1] in VOID:
            continue
        if e[0] == "t" and ev and ev[-1][0] == "t":
            ev[-1] = ("t", ev[-1][1] + e[1])
        else:
            ev.append(e)
    out = []
    inpre = 0
    incode = 0
    for i, e in enumerate(ev):
        if e[0] == "s" and e[1] == "pre":
            inpre += 1
        if e[0] == "e" and e[1] == "pre":
            inpre = max(0, inpre - 1)
        if e[0] == "s" and e[1] == "code":
            incode += 1
        if e[0] == "e" and e[1] == "code":
            incode = max(0, incode - 1)
        if e[0] == "t" and not inpre:
            prev = ev[i - 1] if i else None
            nxt = ev[i + 1] if i + 1 < len(ev) else None
            d = e[1]
            if incode:
                d = _WSRUN.sub(" ", d)
            else:
                d = _UNCLOSED.sub("", _nl(d))
            if prev is None or (prev[0] in "se" and prev[1] in BLOCK) or prev[0] in _RAWK:
                d = d.lstrip("\n \t")
            if nxt is None or (nxt[0] in "se" and nxt[1] in BLOCK) or nxt[0] in _RAWK:
                d = d.rstrip("\n \t")
            if d == "":
                continue
            e = ("t", d)
        elif e[0] == "s" and not inpre and e[2]:
            e = ("s", e[1], tuple((k, _nl(v) if isinstance(v, str) else v) for k, v in e[2]))
        elif e[0] in ("c", "d", "pi", "ud") and not inpre:
            # raw comment / declaration / processing instruction: blank lines and a trailing line end
            # inside it are insignificant
            e = (e[0], re.sub(r"\n+", "\n", _nl(e[1])).strip("\n"))
        out.append(e)
    # a line ending at the very end of the document is insignificant even inside a never-closed <pre>
    if out and out[-1][0] == "t":
        d = out[-1][1].rstrip("\n")
        if d:
            out[-1] = ("t", d)
        else:
            out.pop()
    return out


_ABSTAIN_WS = re.compile("[\x0b\x0c\x1c-\x1f\x85\u00a0\u1680\u2000-\u200a\u2028\u2029\u202f\u205f\u3000\ufeff]")


_DECL = re.compile(r"<![A-Za-z]")
_FENCE_TAB = re.compile(r"(?m)^[ >\t]*(?:`{3,}|~{3,})[^\n]*\t[ \t]*$")
_TYPE1_TAG = re.compile(r"(?im)^[ >\t\-+*0-9.)]*</?(?:script|style|pre|textarea)[^\s>a-z]")
_QUOTE_DEEP = re.compile(r"(?:^|>)(?: {4,}| *\t[ \t]*)>")
_LRD = re.compile(r"(?m)^[ \t>\-+*0-9.)]*\[(?:[^\]\n\\]|\\.)*(?:\n[ \t>]*(?:[^\]\n\\]|\\.)*)?\]:")
_QUOTE_LINE = re.compile(r"^[ \t]{0,3}(?:(?:[-+*]|\d{1,9}[.)])[ \t]+)*>")


def _lead_cols(line):
    col = 0
    for ch in line:
        if ch == " ":
            col += 1
        elif ch == "\t":
            col += 4 - col % 4
        else:
            break
    return col


def _mdit_quote_indent_quirk(src):
    """markdown-it does not apply the "at most three spaces" rule to the '>' of a block-quote
    continuation line and mishandles >=4-column lazy lines after nested quotes (it deviates from
    the specification there; pymarkdown's own golden tests follow the reference implementation).
    Predicate: a line indented >= 4 columns directly follows (no blank line) a run of lines that
    contains a block-quote marker line."""
    in_run_quote = False
    for line in src.split("\n"):
        if line.strip(" \t") == "":
            in_run_quote = False
            continue
        if in_run_quote and _lead_cols(line) >= 4:
            return True
        if _QUOTE_DEEP.search(line):
            return True
        if _QUOTE_LINE.match(line):
            in_run_quote = True
    return False


def abstain_reason(src):
    """Constructs on which CommonMark 0.29 and 0.31 disagree, or outside both: oracle abstains."""
    if _ABSTAIN_WS.search(src):
        return "unicode-or-ff-whitespace"
    if "\r" in src:
        return "carriage-return"
    if _DECL.search(src):
        return "declaration-syntax-differs-0.29-0.31"
    if _FENCE_TAB.search(src):
        return "fence-followed-by-tab-differs-0.29-0.31"
    if _TYPE1_TAG.search(src):
        return "markdown-it-html-block-type7-on-script-style-pre"
    if _mdit_quote_indent_quirk(src):
        return "markdown-it-quote-continuation-indent>=4"
    if "\x00" in src:
        return "nul"
    for ch in src:
        if ord(ch) > 127:
            c = unicodedata.category(ch)
            if c[0] in "SP" or c == "Zs":
                return "unicode-symbol-or-punct"
    return None


def reference_html(src):
    # markdown-it drops the final line ending of an unclosed code block when the file has no
    # final newline; feeding source+"\n" is CommonMark-equivalent
    return _MD.render(src if src.endswith("\n") else src + "\n")


def _strip_alt(ev):
    return [
        (e[0], e[1], tuple(x for x in e[2] if x[0] != "alt")) if e[0] == "s" and e[1] == "img" else e for e in ev
    ]


def _strip_urls(ev):
    return [(e[0], e[1], tuple(x for x in e[2] if x[0] not in ("href", "src"))) if e[0] == "s" and e[1] in ("a", "img") else e for e in ev]


def first_div(a, b):
    path = []
    for x, y in zip(a, b):
        if x != y:
            return path, x, y
        if x[0] == "s" and x[1] not in VOID:
            path.append(x[1])
        elif x[0] == "e" and path:
            path.pop()
    if len(a) != len(b):
        return path, (a[len(b)] if len(a) > len(b) else None), (b[len(a)] if len(b) > len(a) else None)
    return None


def _txt_class(x, y):
    if x == y:
        return "same"
    if re.sub(r"\s+", "", x) == re.sub(r"\s+", "", y):
        return "ws"
    strip = lambda s: re.sub(r"[\s>\-+*0-9.)#]+", "", s)  # noqa: E731
    if strip(x) == strip(y):
        return "markers"
    return "other"


_CONT = {"blockquote", "ul", "ol", "li"}
_LEAF = {"p", "pre", "h1", "h2", "h3", "h4", "h5", "h6"}


def _ctx(path):
    """Coarse context of the first divergence: document / container / leaf block kind / inline."""
    if not path:
        return "doc"
    t = path[-1]
    if t in _CONT:
        return t
    if t in _LEAF:
        return "h" if t[0] == "h" and len(t) == 2 else t
    return "inline"


def _desc(e):
    if e is None:
        return "END"
    if e[0] in "se":
        t = e[1]
        k = t if t in _CONT else ("h" if t in _LEAF and t[0] == "h" and len(t) == 2 else t if t in _LEAF else "hr" if t == "hr" else "inline")
        return f"{e[0]}:{k}"
    return e[0]


def canon(sig):
    """Canonical (coarse) form of a divergence signature; also applied to signatures stored in baselines
    that were recorded with tag names."""
    parts = str(sig).split("|")
    if len(parts) < 3:
        return sig
    out = [parts[0]]
    for p_ in parts[1:3]:
        if p_[:2] in ("s:", "e:"):
            t = p_[2:]
            k = t if t in _CONT else ("h" if (t in _LEAF and t[0] == "h" and len(t) == 2) or t == "h" else t if t in _LEAF else "hr" if t == "hr" else "inline")
            out.append(p_[:2] + k)
        else:
            out.append(p_)
    return "|".join(out + parts[3:])


def compare(src, pm_html):
    """Returns (verdict, signature): verdict in agree | differ | abstain."""
    why = abstain_reason(src)
    if why:
        return "abstain", why
    ref = reference_html(src)
    a = events(pm_html)
    b = events(ref)
    if a == b:
        return "agree", None
    if "![" in src:
        # markdown-it computes image alt text from non-text children differently (skips code
        # spans / entities / hard breaks); only judge alt when every label is plain text
        labels = re.findall(r"!\[([^\]]*)\]", src)
        if any(re.search(r"[`&*_\[<\\!\n]", lab) for lab in labels):
            fd0 = first_div(a, b)
            if _strip_alt(a) == _strip_alt(b) or (fd0 and any(e is not None and e[0] == "s" and e[1] == "img" for e in fd0[1:])):
                return "abstain", "img-alt-nontext"
    if _LRD.search(src):
        # a list item holding only a link reference definition + blank line + paragraph: the reference
        # implementations (cmark, commonmark.js) call it tight, markdown-it loose
        nop = lambda ev: [e for e in ev if not (e[0] in "se" and e[1] == "p")]  # noqa: E731
        if nop(a) == nop(b):
            return "abstain", "lrd-looseness-differs-between-implementations"
    if "&" in src and _strip_urls(a) == _strip_urls(b):
        return "abstain", "entity-in-destination"
    if not src.isascii() and _strip_urls(a) == _strip_urls(b):
        # markdown-it converts non-ASCII host names to punycode (xn--...), the specification percent-encodes
        return "abstain", "markdown-it-punycode-hosts"
    fd = first_div(a, b)
    path, x, y = fd
    sig = _ctx(path) + "|" + _desc(x) + "|" + _desc(y)
    if x is not None and y is not None and x[0] == "t" and y[0] == "t":
        sig += "|" + _txt_class(x[1], y[1])
    elif x is not None and y is not None and x[0] == "s" and y[0] == "s" and x[1] == y[1]:
        sig += "|attrs"
    return "differ", sig
