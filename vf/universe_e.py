"""Fifth group of frozen universes (own content hash, baselines *.E).

Z13 — raw HTML tag lexing, enumerated: every shape of open / closing tag the specification's tag grammar
      distinguishes (attribute names, the three value syntaxes, every character an unquoted value must
      not contain, missing white space between attributes, white space before '>' and '/>'), standing
      alone on a line (HTML block start condition 7 decides whether the rest of the "paragraph" is
      swallowed verbatim), followed or not by inline content, inside a paragraph, unable to interrupt a
      paragraph, in a list item and in a block quote.
      Added after the seeded change C03-r2m2 (a backtick accepted in an unquoted attribute value by the
      block-level recogniser only) was missed: Z6 sweeps numeric limits, not the tag grammar.
Z14 — character references, backslashes and percent signs, complete and cut short, as the *last* characters of
      every string the parser un-escapes on its own (paragraph, heading, link title / destination / label,
      definition, fence info string, code span, autolink, attribute value), with and without a final newline.
      Added after the seeded change C01-r2m2 (an unterminated numeric reference at the end of the string
      indexed past it) was missed: in the other zones something always follows the digits.
Z15 — container closure shapes, enumerated: every three-level nesting of block quote / bullet list / ordered
      list holding a paragraph and one more line (text, a list, a quote, a heading, a fence), closed by a
      separator line in the outer context (bare '>', '> ', blank) and continued at the outer level, the
      middle level, the top level, or by a new item of the middle container.
      Added after the seeded change C04-r2m1 (ordered-list ends not flushed before the closing BLANK) was
      caught by one document of one seed only.
"""
import hashlib
import os

from vf import universe as U

NAMES = ["a", "b2", "x-y", "span"]
BAD = ["`", "'", '"', "=", "<", ">", "&", "é", "\t"]
ATTRS = (
    ["", " b", " b=c", " b='c'", ' b="c"', " b = c", " b= 'c d'", " _b:c.d-e=f", " 1b=c", " b=", " b='c", ' b="c\'d"', " b=c/", " B=C"]
    + [f" b=c{ch}d" for ch in BAD]
    + [f" b={ch}c" for ch in ("`", "=", "<")]
    + [' b="c"d="e"', " b='c'd", " b c=d", " b=c d=e", " b=c`d e=f", " b='`' c=`"]
)
ENDS = [">", "/>", " >", " />", "\t>", ">x", "> ", "/ >"]
CLOSERS = ["</a>", "</a >", "</a\t>", "</a b>", "</ a>", "</a/>", "</x-y>", "</b2>x"]
CONTEXTS = 7


def _build():
    tags = []
    for ni, n in enumerate(NAMES):
        for ai, a in enumerate(ATTRS):
            for ei, e in enumerate(ENDS):
                # thin out: every name with every attribute for the two plain ends, the other ends with name 0 and 2
                if ei >= 2 and ni not in (0, 2):
                    continue
                tags.append("<" + n + a + e)
    tags += CLOSERS
    return tags


_TAGS = _build()


def z13(i):
    t = _TAGS[i // CONTEXTS]
    c = i % CONTEXTS
    if c == 0:
        return t + "\n*x* `y`\n"
    if c == 1:
        return t + "\n\n*x*\n"
    if c == 2:
        return "t " + t + " *x*\nu\n"
    if c == 3:
        return "para\n" + t + "\n*x*\n"
    if c == 4:
        return "- " + t + "\n  *x*\n- z\n"
    if c == 5:
        return "> " + t + "\n> *x*\n"
    return "  " + t + "\n*x*\n\n    " + t + "\n"


U.ZONES["Z13"] = (z13, lambda: len(_TAGS) * CONTEXTS)


# ------------------------------------------------------------------ Z14
REFS = ["&#9", "&#8364", "&#x1F", "&#X20AC", "&#1234567", "&#12345678", "&#", "&#x", "&#xZ", "&amp", "&amp;", "&#35;", "&nosuch;", "&#0;", "&#xD800;",
        "&copy", "\\", "\\*", "%", "%4", "%41", "&", "&#;", "&#x;", "&#99999999;", "&a1;", "&#x10FFFF;", "é&#233"]
PLACES = [
    "price: 5 {r}", "# Copyright {r}", "title {r}\n===", '[a](/u "{r}")', "[a](/u '{r}')", "[a](/u ({r}))", '[a]: /u "{r}"\n\n[a]', "``` {r}\ncode\n```", "~~~{r}\ncode\n~~~",
    "[a](/{r})", "[a](</{r}>)", "<http://x.y/{r}>", "`{r}`", "[{r}]", "![{r}](/u)", "x {r}\ny", "*{r}*", '<a b="{r}">', "[{r}]: /u\n\n[{r}]", "[a]: /{r}\n\n[a]",
    "- {r}", "> {r}", "    {r}", "<div>\n{r}", "{r}", "a {r} b", "[a][{r}]\n\n[{r}]: /u", "{r}{r}",
]


def z14(i):
    k, nl = divmod(i, 2)
    r = REFS[k % len(REFS)]
    pl = PLACES[k // len(REFS)]
    return pl.replace("{r}", r) + ("\n" if nl else "")


U.ZONES["Z14"] = (z14, lambda: len(REFS) * len(PLACES) * 2)


# ------------------------------------------------------------------ Z15
_FIRST = {"q": "> ", "u": "- ", "o": "1. "}
_CONT = {"q": "> ", "u": "  ", "o": "   "}
_SECOND = ["more", "1. list 1", "- item", "> q", "# h", "```"]
_KINDS = [a + b + c for a in "quo" for b in "quo" for c in "quo"]


def _z15_docs():
    out = []
    for k in _KINDS:
        c1, c2, c3 = k
        first = _FIRST[c1] + _FIRST[c2] + _FIRST[c3] + "para"
        for sec in _SECOND:
            second = _CONT[c1] + _CONT[c2] + _CONT[c3] + sec
            seps = ([">", "> ", ""] if c1 == "q" else ["", _CONT[c1].rstrip() or "", _CONT[c1] + (">" if c2 == "q" else "")])
            for sep in seps:
                for fol in (_CONT[c1] + "text", _CONT[c1] + _CONT[c2] + "text", "text", _CONT[c1] + _FIRST[c2] + "item"):
                    out.append("\n".join([first, second, sep, fol]) + "\n")
    return out


_Z15 = _z15_docs()
U.ZONES["Z15"] = (lambda i: _Z15[i], lambda: len(_Z15))


def content_hash():
    h = hashlib.sha256()
    here = os.path.dirname(os.path.abspath(__file__))
    for p in (os.path.abspath(__file__), os.path.join(here, "prng.py")):
        with open(p, "rb") as f:
            h.update(f.read())
    return h.hexdigest()[:16]
