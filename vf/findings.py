"""Known findings and closed-universe baselines.

known_findings.json (committed, never written at run time) lists genuine defects of the pinned
tree by *mechanism* (signature) with one concrete witness each.  baseline/<check>.json.gz maps the
*specific inputs* (frozen universe keys) on which the pinned tree violates the property to the
signature observed there.

Decision for a violation (case, signature) observed at run time:
  1. case in baseline and signature == recorded one      -> known (no alarm)
  2. case not in baseline                                -> VIOLATION (even if the mechanism is known)
  3. case in baseline, different signature               -> VIOLATION (a different violation on that input)
"""
import gzip
import json
import os

from vf import env

KF_PATH = os.path.join(env.VERIF, "known_findings.json")
BASE_DIR = os.path.join(env.VERIF, "baseline")


def load_known():
    if not os.path.exists(KF_PATH):
        return []
    with open(KF_PATH, encoding="utf-8") as f:
        return json.load(f)["findings"]


def known_for(prop):
    return [k for k in load_known() if k["property"] == prop]


def baseline_path(name):
    return os.path.join(BASE_DIR, name + ".json.gz")


def load_baseline(name, canon=None):
    p = baseline_path(name)
    if not os.path.exists(p):
        return None
    with gzip.open(p, "rt", encoding="utf-8") as f:
        d = json.load(f)
    sigs = d["signatures"]
    if canon is not None:
        sigs = [";".join(sorted({canon(a) for a in s.split(";")})) for s in sigs]
    cases = {}
    for key, si in d["cases"].items():
        cases[key] = sigs[si]
    d["map"] = cases
    return d


def save_baseline(name, universe_hash, repo_rev, case_sig, meta=None):
    os.makedirs(BASE_DIR, exist_ok=True)
    sigs = sorted(set(case_sig.values()))
    idx = {s: i for i, s in enumerate(sigs)}
    d = {
        "name": name,
        "universe_hash": universe_hash,
        "repo_rev": repo_rev,
        "signatures": sigs,
        "cases": {k: idx[s] for k, s in sorted(case_sig.items())},
        "meta": meta or {},
    }
    with gzip.GzipFile(baseline_path(name), "wb", mtime=0) as g:
        g.write(json.dumps(d, sort_keys=True, separators=(",", ":")).encode("utf-8"))


def atoms(signature):
    return set(str(signature).split(";"))


def classify(baseline_map, case, signature):
    """-> 'known' | 'new-case' | 'new-signature'.

    A signature is a ';'-joined set of atomic mechanisms.  On a baseline input, observing a subset of
    the recorded mechanisms is known; any mechanism not recorded for that input is a different violation."""
    if baseline_map is None or case not in baseline_map:
        return "new-case"
    if atoms(signature) <= atoms(baseline_map[case]):
        return "known"
    return "new-signature"
