from _vfrec_common import build

VfrecOff = build("off", "VfrecOff", "zzy998", "vf-rec-off")
