from _vfrec_common import build

VfrecFirst = build("first", "VfrecFirst", "aaa000", "vf-rec-first")
