from _vfrec_common import build

VfrecLast = build("last", "VfrecLast", "zzz999", "vf-rec-last")
