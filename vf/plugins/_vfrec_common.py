"""Recording rule plugins for C13/C14/C15 (loaded by the real application through --add-plugin).

They are passive: they never report a failure and never request a fix.  What they implement and
declare comes from the harness through vf.reclog.SPEC[role] at import time (the harness drops the
module from sys.modules before every run so that the class is rebuilt).
"""
from pymarkdown.plugin_manager.plugin_details import PluginDetailsV2
from pymarkdown.plugin_manager.rule_plugin import RulePlugin

from vf import reclog


def build(role, class_name, plugin_id, plugin_name):
    spec = reclog.SPEC.get(role, {})
    callbacks = spec.get("callbacks", "STLC")

    def get_details(self):
        return PluginDetailsV2(
            plugin_name=plugin_name,
            plugin_id=plugin_id,
            plugin_enabled_by_default=spec.get("enabled", True),
            plugin_description="verification recorder (passive)",
            plugin_version="0.0.1",
            plugin_url="https://example.invalid/" + plugin_name,
            plugin_supports_fix=bool(spec.get("fix", False)),
            plugin_fix_level=int(spec.get("level", 0)),
        )

    ns = {"get_details": get_details}

    def fault(kind):
        f = reclog.FAULT
        if f and f.get("role") == role:
            f["count"] = f.get("count", 0) + 1
            if f["count"] == f["at"] or f.get("kind_at") == (kind, f["count"]):
                raise RuntimeError(f"injected fault in {role} at callback #{f['count']} ({kind})")

    if "S" in callbacks:
        def starting_new_file(self):
            reclog.EVENTS.append(("S", role))
            fault("S")
        ns["starting_new_file"] = starting_new_file
    if "T" in callbacks:
        def next_token(self, context, token):
            reclog.EVENTS.append(("T", role, token, context.in_fix_mode))
            fault("T")
        ns["next_token"] = next_token
    if "L" in callbacks:
        def next_line(self, context, line):
            reclog.EVENTS.append(("L", role, context.line_number, line, context.in_fix_mode))
            fault("L")
        ns["next_line"] = next_line
    if "C" in callbacks:
        def completed_file(self, context):
            reclog.EVENTS.append(("C", role, context.line_number, context.in_fix_mode))
            fault("C")
        ns["completed_file"] = completed_file
    return type(class_name, (RulePlugin,), ns)
