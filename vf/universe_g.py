"""Seventh group of frozen universes (own content hash, baselines *.G).

Z20 — inline constructs whose text contains the character that normally ends them, followed on the same
      line by further positioned inline elements: raw HTML with '>' inside an attribute value / comment /
      processing instruction / CDATA section / declaration, code spans containing backticks, links whose
      text or destination contains ']' / ')' (escaped, nested, in angle brackets), autolinks next to '<',
      emphasis containing the delimiter.  In a paragraph, an ATX heading, a block quote and a list item.
      Added after the third-round seeded change C05-r3m1 (column advance computed from the text up to the
      *first* '>' of a tag) was missed: every earlier zone ends such constructs at the first closer.
"""
import hashlib
import os

from vf import universe as U

INNER = [
    '<a href="x>y">', "<a b='>'>", "<a b='c>d' e=\"f>g\">", "<!-- a > b -->", "<!-- > -->", "<?php a > b ?>", "<?x >?>", "<![CDATA[a>b]]>", "<![CDATA[>]]>", "<!DOCTYPE a>",
    "`` a`b ``", "``` `` ```", "` `` `", "[a\\]b](/u)", "[a[b]c](/u)", "[a](/u(v)w)", "[a](</u)v>)", "[a](/u \"t)\")", "![a\\]b](/u)", "[a]b](/u)",
    "<http://x.y/a>b>", "<a@b.c>", "*a\\*b*", "**a*b**", "_a_b_", "&gt;", "\\>", "<a\thref='>'>", '<a href="x>y>z">', "<b c=d>e>",
]
FOLLOW = ["*e*", "[l](/u)", "<b>", "`c`", "![i](/j)", "<http://x.y>", "**s** *t*", "end"]


def _docs():
    out = []
    for ii, inner in enumerate(INNER):
        for fi, fol in enumerate(FOLLOW):
            for c in range(5):
                if c >= 2 and (ii + fi + c) % 2:
                    continue
                line = "see " + inner + " and " + fol + " [z](/z) <i>"
                if (ii + fi) % 3 == 0:
                    line = inner + " " + inner + " " + fol
                if c == 0:
                    d = line + "\n"
                elif c == 1:
                    d = "# " + line + "\n"
                elif c == 2:
                    d = "> " + line + "\n> more " + fol + "\n"
                elif c == 3:
                    d = "- " + line + "\n  next " + inner + " " + fol + "\n"
                else:
                    d = "lead\n  " + line + "\n"
                out.append(d)
    return out


_Z20 = _docs()
U.ZONES["Z20"] = (lambda i: _Z20[i], lambda: len(_Z20))


def content_hash():
    h = hashlib.sha256()
    here = os.path.dirname(os.path.abspath(__file__))
    for p in (os.path.abspath(__file__), os.path.join(here, "prng.py")):
        with open(p, "rb") as f:
            h.update(f.read())
    return h.hexdigest()[:16]
