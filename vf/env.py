"""Process environment: which pymarkdown tree is observed, where /verif lives.

The tree under test is /repo (its *current working tree*, imported directly, never a
cached build).  VERIF_REPO may point at a scratch worktree instead (used only to try
seeded changes without touching /repo).
"""
import os
import sys

VERIF = os.path.dirname(os.path.dirname(os.path.abspath(__file__)))
REPO = os.path.abspath(os.environ.get("VERIF_REPO", "/repo"))
VENDOR = os.path.join(VERIF, "vendor")
PY = "/venv/bin/python"


def setup_path():
    for p in (VENDOR, VERIF, REPO):
        if p in sys.path:
            sys.path.remove(p)
    sys.path.insert(0, VENDOR)
    sys.path.insert(0, VERIF)
    sys.path.insert(0, REPO)  # REPO first: `import pymarkdown` must be the tree under test


def child_env(extra=None):
    e = dict(os.environ)
    e["PYTHONHASHSEED"] = "0"
    e["PYTHONPATH"] = os.pathsep.join([REPO, VERIF, VENDOR])
    e["PYTHONDONTWRITEBYTECODE"] = "1"
    e["VERIF_REPO"] = REPO
    e.pop("PYTHONWARNINGS", None)
    if extra:
        e.update(extra)
    return e


def assert_repo_imported():
    import pymarkdown

    got = os.path.dirname(os.path.abspath(pymarkdown.__file__))
    want = os.path.join(REPO, "pymarkdown")
    if os.path.realpath(got) != os.path.realpath(want):
        raise SystemExit(f"INCONCLUSIVE: pymarkdown imported from {got}, expected {want}")
