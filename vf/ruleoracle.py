"""C06 oracles: each rule's *documented* trigger condition (newdocs/src/plugins/rule_mdXXX.md),
evaluated over the raw lines and the block structure given by the independent parser
(markdown-it-py tokens with source line maps).

Every oracle returns (must, silent):
    must   : list of sets of 1-based line numbers; each set must contain at least one report
    silent : set of lines on which the documentation does not decide (reports there are not judged)
A report on a line that is in no must-set and not silent is *spurious*; a must-set without a report
is *missed*.  Oracles abstain generously: anything the rule's page does not state crisply is silent.
"""
import re

from markdown_it import MarkdownIt

_MD = MarkdownIt("commonmark")


class Doc:
    def __init__(self, src):
        self.src = src
        self.lines = src.split("\n")
        self.n = len(self.lines)
        self.toks = _MD.parse(src if src.endswith("\n") else src + "\n")
        self.code = set()
        self.html = set()
        self.fences = []
        self.icode = []
        self.headings = []
        self.hrs = []
        self.bullets = []
        self.nested_lines = set()
        self.fence_edges = set()
        for t in self.toks:
            if t.map is None:
                continue
            a, b = t.map
            rng = range(a + 1, min(b, self.n) + 1)
            if t.type in ("blockquote_open", "bullet_list_open", "ordered_list_open"):
                self.nested_lines.update(rng)
            if t.type == "fence":
                self.code.update(rng)
                self.fence_edges.add(a + 1)
                if b <= self.n and self.lines[b - 1].strip(" \t>").startswith(t.markup[:3]) and b - 1 > a:
                    self.fence_edges.add(b)
                self.fences.append(t)
            elif t.type == "code_block":
                self.code.update(rng)
                self.icode.append(t)
            elif t.type == "html_block":
                self.html.update(rng)
            elif t.type == "heading_open":
                self.headings.append(t)
            elif t.type == "hr":
                self.hrs.append(t)
            elif t.type == "bullet_list_open":
                self.bullets.append(t)

    def inline_after(self, open_tok):
        i = self.toks.index(open_tok)
        return self.toks[i + 1] if i + 1 < len(self.toks) and self.toks[i + 1].type == "inline" else None


def _all(d):
    return set(range(1, d.n + 1))


# ------------------------------------------------------------------------------- line rules
def md047(d, cfg):
    if d.src == "":
        return [], _all(d)
    if d.lines[-1] != "":
        return [{d.n}], set()
    return [], set()


def md010(d, cfg):
    must = []
    silent = set()
    for i, ln in enumerate(d.lines, 1):
        if "\t" in ln:
            if not cfg.get("code_blocks", True) and i in d.code:
                silent.add(i)  # the page says code blocks are then not searched; fence lines themselves are undecided
            else:
                must.append({i})
    return must, silent


def md009(d, cfg):
    br = cfg.get("br_spaces", 2)
    strict = cfg.get("strict", False)
    must = []
    silent = set()
    for i, ln in enumerate(d.lines, 1):
        n = len(ln) - len(ln.rstrip(" "))
        if n == 0:
            continue
        if i in d.fence_edges:
            silent.add(i)  # whether the fence line itself is one of "their lines" is not stated
            continue
        if i in d.code:
            continue  # code blocks never trigger
        if ln.endswith("\t") or "\t" in ln[len(ln.rstrip(" \t")):]:
            silent.add(i)
            continue
        if strict:
            # strict: trigger regardless of br_spaces "on any eligible line"; whether a real hard break
            # (inside a paragraph) is still eligible is not stated
            if n == br:
                silent.add(i)
            else:
                must.append({i})
        elif br < 2:
            silent.add(i)  # br_spaces below 2 is not described
        elif n != br:
            must.append({i})
    return must, silent


def md012(d, cfg):
    mx = cfg.get("maximum", 1)
    must = []
    silent = set(d.nested_lines)  # what counts as a blank line inside a container is the parser's business
    if d.lines and d.lines[-1] == "":
        silent.add(d.n)  # the empty string after the final newline: whether it is a "blank line" is not stated
    i = 0
    while i < d.n:
        if d.lines[i].strip(" \t") == "" and not (i == d.n - 1 and d.lines[i] == ""):
            j = i
            while j < d.n and d.lines[j].strip(" \t") == "" and not (j == d.n - 1 and d.lines[j] == ""):
                j += 1
            run = set(range(i + 1, j + 1))
            if run & d.code or run & d.html or run & d.nested_lines:
                silent.update(run)  # inside code blocks it never fires; containers / html blocks: "certain" ones only
            elif j >= d.n - 1:
                silent.update(run)  # blank lines at the very end of the file: not described
            elif len(run) > mx:
                must.append(run)
                silent.update(run)  # which line of the run carries the report is not stated
            i = j
        else:
            i += 1
    return must, silent


def md013(d, cfg):
    must = []
    silent = set()
    heading_lines = set()
    for h in d.headings:
        heading_lines.update(range(h.map[0] + 1, h.map[1] + 1))
    for i, ln in enumerate(d.lines, 1):
        if i in d.code:
            if not cfg.get("code_blocks", True):
                continue
            limit = cfg.get("code_block_line_length", 80)
        elif i in heading_lines:
            if not cfg.get("headings", True):
                continue
            limit = cfg.get("heading_line_length", 80)
        else:
            limit = cfg.get("line_length", 80)
        if len(ln) <= limit:
            continue
        if "\t" in ln or not ln.isascii():
            silent.add(i)  # how tabs / wide characters count is not stated
            continue
        if i in d.nested_lines or i in d.html:
            silent.add(i)
            continue
        rest = ln[limit:]
        has_ws = re.search(r"\s", rest) is not None
        if cfg.get("strict"):
            must.append({i})
        elif cfg.get("stern"):
            silent.add(i)
        elif has_ws:
            must.append({i})
    return must, silent


# ------------------------------------------------------------------------------- heading rules
def _top_headings(d):
    return [h for h in d.headings if h.level == 0]


def md019(d, cfg):
    must, silent = [], set()
    for h in d.headings:
        if h.markup.startswith("#"):
            ln = d.lines[h.map[0]]
            if h.level != 0 or "\t" in ln or ln.rstrip().endswith("#"):
                # closed Atx headings are the business of MD021; this page does not say whether MD019 also fires
                silent.add(h.map[0] + 1)
                continue
            m = re.match(r"^ {0,3}#{1,6}( +)\S", ln)
            if m and len(m.group(1)) > 1:
                must.append({h.map[0] + 1})
    return must, silent


def md023(d, cfg):
    must, silent = [], set()
    for h in d.headings:
        rng = set(range(h.map[0] + 1, h.map[1] + 1))
        if h.level != 0:
            silent.update(rng)
            continue
        if h.markup.startswith("#"):
            if re.match(r"^[ \t]+#", d.lines[h.map[0]]):
                must.append({h.map[0] + 1})
        else:
            if any(re.match(r"^[ \t]+\S", d.lines[k - 1]) for k in rng):
                must.append(rng)
                silent.update(rng)
    return must, silent


def md026(d, cfg):
    punct = cfg.get("punctuation", ".,;:!。，；：！")
    must, silent = [], set()
    for h in d.headings:
        rng = set(range(h.map[0] + 1, h.map[1] + 1))
        inl = d.inline_after(h)
        if h.level != 0 or inl is None or not inl.children:
            silent.update(rng)
            continue
        last = inl.children[-1]
        if last.type != "text" or not last.content:
            silent.update(rng)
            continue
        raw = d.lines[h.map[0]] if h.markup.startswith("#") else d.lines[h.map[1] - 2]
        if "&" in raw or "\\" in raw:
            silent.update(rng)
            continue
        if last.content.rstrip()[-1:] and last.content.rstrip()[-1] in punct and last.content == last.content.rstrip():
            must.append(rng)
            silent.update(rng)
    return must, silent


def md025(d, cfg):
    must, silent = [], set()
    seen = False
    for h in d.headings:
        rng = set(range(h.map[0] + 1, h.map[1] + 1))
        if h.level != 0:
            silent.update(rng)
            if h.tag == "h1":
                return [], _all(d)  # a nested top-level heading: whether it counts is not stated
            continue
        if h.tag == "h1":
            if seen:
                must.append(rng)
                silent.update(rng)
            seen = True
    return must, silent


def md001(d, cfg):
    must, silent = [], set()
    prev = None
    for h in d.headings:
        rng = set(range(h.map[0] + 1, h.map[1] + 1))
        lvl = int(h.tag[1])
        if h.level != 0:
            return [], _all(d)
        if prev is not None and lvl > prev + 1:
            must.append(rng)
            silent.update(rng)
        prev = lvl
    return must, silent


def md041(d, cfg):
    first = None
    for t in d.toks:
        if t.map is not None:
            first = t
            break
    if first is None or first.map[0] != 0:
        return [], _all(d)
    if first.type == "heading_open":
        if first.tag == "h1":
            return [], set()
        return [set(range(first.map[0] + 1, first.map[1] + 1))], set(range(first.map[0] + 1, first.map[1] + 1))
    if first.type == "html_block" or first.level != 0:
        return [], _all(d)
    if first.type in ("paragraph_open", "fence", "code_block", "hr", "bullet_list_open", "ordered_list_open", "blockquote_open"):
        rng = set(range(1, first.map[1] + 1))
        return [rng], rng
    return [], _all(d)


# ------------------------------------------------------------------------------- code / list / hr rules
def md040(d, cfg):
    must, silent = [], set()
    for f in d.fences:
        if f.info.strip() == "":
            must.append({f.map[0] + 1})
    return must, silent


def md048(d, cfg):
    must, silent = [], set()
    style = cfg.get("style", "consistent")
    want = None
    if style == "backtick":
        want = "`"
    elif style == "tilde":
        want = "~"
    elif style != "consistent":
        return [], _all(d)
    for f in d.fences:
        ch = f.markup[0]
        if want is None:
            want = ch
        elif ch != want:
            must.append({f.map[0] + 1})
    return must, silent


def md046(d, cfg):
    must, silent = [], set()
    style = cfg.get("style", "consistent")
    want = {"fenced": "fence", "indented": "code_block"}.get(style)
    if style not in ("consistent", "fenced", "indented"):
        return [], _all(d)
    for t in d.toks:
        if t.type in ("fence", "code_block"):
            if want is None:
                want = t.type
            elif t.type != want:
                must.append({t.map[0] + 1})
    return must, silent


def md004(d, cfg):
    style = cfg.get("style", "consistent")
    must, silent = [], set()
    if style == "sublist":
        return [], _all(d)
    want = {"asterisk": "*", "plus": "+", "dash": "-"}.get(style)
    if style != "consistent" and want is None:
        return [], _all(d)
    for it in d.bullets:
        if want is None:
            want = it.markup
        elif it.markup != want:
            must.append({it.map[0] + 1})
    return must, silent


def md035(d, cfg):
    style = cfg.get("style", "consistent")
    must, silent = [], set()
    want = None if style == "consistent" else style
    for h in d.hrs:
        text = d.lines[h.map[0]].strip(" \t")
        if h.level != 0:
            # a nested break: its text (after container prefixes) would need the parser; the rest is not judged
            return [], _all(d)
        if want is None:
            want = text
        elif text != want:
            must.append({h.map[0] + 1})
    return must, silent


def _parents(d):
    """fence token -> (innermost container kind, is first child of that container)"""
    out = {}
    stack = []
    prev = None
    for t in d.toks:
        if t.type in ("blockquote_open", "list_item_open"):
            stack.append("quote" if t.type == "blockquote_open" else "item")
        elif t.type in ("blockquote_close", "list_item_close"):
            if stack:
                stack.pop()
        elif t.type == "fence":
            out[id(t)] = (stack[-1] if stack else None, prev is not None and prev.type in ("blockquote_open", "list_item_open"))
        if t.type not in ("bullet_list_open", "ordered_list_open"):
            prev = t
    return out


_CBLANK = re.compile(r"[ \t>]*")


def md031(d, cfg):
    must, silent = [], set()
    list_items = cfg.get("list_items", True)
    parents = _parents(d)
    for f in d.fences:
        a, b = f.map
        rng = set(range(a + 1, min(b, d.n) + 1))
        if f.level != 0:
            kind, first_child = parents.get(id(f), (None, False))
            silent.update(rng)
            if kind == "item" and not list_items:
                # "will not trigger ... directly within a list item": nothing may be reported for this fence
                silent.difference_update(rng)
                if b <= d.n:
                    silent.add(b)  # the closing fence may also be the item's last line: what follows is outside the item
                continue
            if "\t" in d.lines[a] or (a > 0 and "\t" in d.lines[a - 1]):
                continue
            # the line before the opening fence, inside the same container, is not blank
            if not first_child and a > 0 and not _CBLANK.fullmatch(d.lines[a - 1]) and kind == "quote" and d.lines[a - 1].lstrip(" ").startswith(">"):
                must.append({a + 1})
            continue
        closed = b - 1 > a and d.lines[b - 1].strip().startswith(f.markup[0] * 3) if b - 1 < d.n else False
        if a > 0 and d.lines[a - 1].strip(" \t") != "":
            must.append({a + 1})
        if closed and b < d.n and d.lines[b].strip(" \t") != "" and not (b == d.n - 1 and d.lines[b] == ""):
            must.append({b})
        if not closed:
            silent.update(rng)
    return must, silent


def md042(d, cfg):
    must, silent = [], set()
    for t in d.toks:
        if t.type == "inline" and t.children and t.map:
            rng = set(range(t.map[0] + 1, t.map[1] + 1))
            links = [c for c in t.children if c.type == "link_open"]
            if any((c.attrGet("href") or "") in ("", "#") for c in links):
                if t.level > 1 or len(rng) > 1:
                    silent.update(rng)
                else:
                    must.append(rng)
    return must, silent


def md045(d, cfg):
    must, silent = [], set()
    for t in d.toks:
        if t.type == "inline" and t.children and t.map:
            rng = set(range(t.map[0] + 1, t.map[1] + 1))

            def imgs(ch):
                for c in ch:
                    if c.type == "image":
                        yield c
                    if c.children:
                        yield from imgs(c.children)

            if any((c.content or "").strip() == "" for c in imgs(t.children)):
                if t.level > 1 or len(rng) > 1:
                    silent.update(rng)
                else:
                    must.append(rng)
    return must, silent


# ------------------------------------------------------------------------------- more heading / list rules
def _heading_style(d, h):
    if not h.markup.startswith("#"):
        return "setext"
    ln = d.lines[h.map[0]]
    body = ln.strip()
    if re.search(r"(?<!\\)[ \t]#+$", body) and body.strip("#").strip():
        return "atx_closed"
    if body.strip("#").strip() == "":
        return None  # empty heading: its style is undecided
    return "atx"


def md003(d, cfg):
    style = cfg.get("style", "consistent")
    if style not in ("consistent", "atx", "atx_closed", "setext") or any(h.level != 0 for h in d.headings):
        return [], _all(d)
    must, silent = [], set()
    want = None if style == "consistent" else style
    for h in d.headings:
        rng = set(range(h.map[0] + 1, h.map[1] + 1))
        st = _heading_style(d, h)
        if st is None or "\t" in d.lines[h.map[0]]:
            silent.update(rng)
            continue
        if want is None:
            want = st
            continue
        if st != want:
            if want == "setext" and int(h.tag[1]) > 2:
                silent.update(rng)  # setext cannot express levels 3+: see allow-setext-update, not judged
            else:
                must.append(rng)
                silent.update(rng)
    return must, silent


def md024(d, cfg):
    if any(h.level != 0 for h in d.headings):
        return [], _all(d)
    must, silent = [], set()
    seen = set()
    fuzzy = set()
    siblings = cfg.get("siblings_only") or cfg.get("allow_different_nesting")
    stack = []  # (level, index) of the headings that enclose the current one
    for hi, h in enumerate(d.headings):
        lvl = int(h.tag[1])
        while stack and stack[-1][0] >= lvl:
            stack.pop()
        parent = stack[-1][1] if stack else None
        stack.append((lvl, hi))
        rng = set(range(h.map[0] + 1, h.map[1] + 1))
        inl = d.inline_after(h)
        text = inl.content if inl is not None else ""
        raw = d.lines[h.map[0]]
        plain = (re.match(r"^#{1,6} \S(.*\S)?$", raw) is not None and not raw.endswith("#")) if h.markup.startswith("#") else all(
            ln == ln.strip() for ln in d.lines[h.map[0] : h.map[1] - 1])
        if text == "" or "\\" in text or "&" in text or not plain:
            # "a strict comparison is performed": only headings written without extra spacing / closing hashes are judged
            silent.update(rng)
            fuzzy.add(text)
            continue
        key = (parent, lvl, text) if siblings else text
        if text in fuzzy:
            silent.update(rng)  # duplicates of a heading that was not judged are not judged either
        elif key in seen:
            must.append(rng)
            silent.update(rng)
        seen.add(key)
    return must, silent


def _top_blocks(d):
    return [t for t in d.toks if t.level == 0 and t.map is not None and t.nesting >= 0]


def md022(d, cfg):
    above_n = cfg.get("lines_above", 1)
    below_n = cfg.get("lines_below", 1)
    must, silent = [], set()
    tops = _top_blocks(d)
    for h in d.headings:
        rng = set(range(h.map[0] + 1, h.map[1] + 1))
        if h.level != 0:
            silent.update(rng)
            continue
        i = tops.index(h)
        prev = tops[i - 1] if i > 0 else None
        nxt = tops[i + 1] if i + 1 < len(tops) else None
        a, b = h.map
        bad = False
        undecided = False
        if prev is None:
            if a != 0:
                undecided = True  # something invisible (a link reference definition) precedes it
        elif prev.type in ("bullet_list_open", "ordered_list_open", "blockquote_open", "html_block"):
            undecided = True
        else:
            k = 0
            while a - 1 - k >= 0 and d.lines[a - 1 - k].strip(" \t") == "":
                k += 1
            if k != above_n:
                bad = True
        if nxt is None:
            undecided = True if not bad else undecided  # end of document: not described
        elif nxt.type in ("bullet_list_open", "ordered_list_open", "blockquote_open", "html_block"):
            undecided = True if not bad else undecided
        else:
            k = 0
            while b + k < d.n and d.lines[b + k].strip(" \t") == "":
                k += 1
            if k != below_n:
                bad = True
        if bad:
            must.append(rng)
            silent.update(rng)
        elif undecided:
            silent.update(rng)
    return must, silent


def md032(d, cfg):
    must, silent = [], set()
    tops = _top_blocks(d)
    for t in d.toks:
        if t.type in ("bullet_list_open", "ordered_list_open") and t.map is not None:
            a, b = t.map
            rng = set(range(a + 1, min(b, d.n) + 1))
            if t.level != 0:
                silent.update(rng)
                continue
            silent.update(rng)  # where inside the list the report lands (first / last item line) is not stated
            if a > 0 and d.lines[a - 1].strip(" \t") != "":
                must.append({a, a + 1})  # at the list start, or (adjacent lists) at the line that precedes it
                silent.add(a)
            # what follows: the line after the list's last line
            last = b
            while last > a and d.lines[last - 1].strip(" \t") == "":
                last -= 1
            if last < d.n and last == b and d.lines[b].strip(" \t") != "" and not (b == d.n - 1 and d.lines[b] == ""):
                must.append({k for k in rng if k >= a + 1} | {b + 1})
                silent.add(b + 1)
    return must, silent


ORACLES = {
    "md047": (md047, [{}]),
    "md010": (md010, [{}, {"code_blocks": False}]),
    "md009": (md009, [{}, {"br_spaces": 3}, {"strict": True}, {"br_spaces": 0}]),
    "md012": (md012, [{}, {"maximum": 2}, {"maximum": 0}, {"maximum": 3}]),
    "md013": (md013, [{}, {"line_length": 40}, {"line_length": 20, "heading_line_length": 30, "code_block_line_length": 10}, {"strict": True, "line_length": 40},
                      {"code_blocks": False, "line_length": 30}, {"headings": False, "line_length": 30}, {"stern": True, "line_length": 40},
                      # every ordering of the three limits (each limit in turn the smallest / the largest)
                      {"line_length": 40, "heading_line_length": 15, "code_block_line_length": 40, "strict": True},
                      {"line_length": 40, "heading_line_length": 40, "code_block_line_length": 8, "strict": True},
                      {"line_length": 12, "heading_line_length": 40, "code_block_line_length": 40, "strict": True},
                      {"line_length": 30, "heading_line_length": 10, "code_block_line_length": 20},
                      {"line_length": 10, "heading_line_length": 20, "code_block_line_length": 30},
                      {"line_length": 20, "heading_line_length": 30, "code_block_line_length": 10, "strict": True}]),
    "md019": (md019, [{}]),
    "md023": (md023, [{}]),
    "md026": (md026, [{}, {"punctuation": "?!"}]),
    "md025": (md025, [{}]),
    "md001": (md001, [{}]),
    "md041": (md041, [{}]),
    "md040": (md040, [{}]),
    "md048": (md048, [{}, {"style": "backtick"}, {"style": "tilde"}]),
    "md046": (md046, [{}, {"style": "fenced"}, {"style": "indented"}]),
    "md004": (md004, [{}, {"style": "dash"}, {"style": "asterisk"}, {"style": "plus"}]),
    "md035": (md035, [{}, {"style": "---"}, {"style": "***"}]),
    "md031": (md031, [{}, {"list_items": False}]),
    "md042": (md042, [{}]),
    "md045": (md045, [{}]),
    "md003": (md003, [{}, {"style": "atx"}, {"style": "atx_closed"}, {"style": "setext"}]),
    "md024": (md024, [{}, {"siblings_only": True}, {"allow_different_nesting": True}]),
    "md022": (md022, [{}, {"lines_above": 2}, {"lines_below": 0}]),
    "md032": (md032, [{}]),
}


def set_args(rule, cfg):
    out = []
    for k, v in cfg.items():
        if isinstance(v, bool):
            out.append(f"plugins.{rule}.{k}=$!{v}")
        elif isinstance(v, int):
            out.append(f"plugins.{rule}.{k}=$#{v}")
        else:
            out.append(f"plugins.{rule}.{k}={v}")
    return out


def judge(rule, cfg, src, reported_lines):
    """-> (missed: list of must-sets without report, spurious: list of lines, abstained: int)"""
    fn = ORACLES[rule][0]
    d = Doc(src)
    must, silent = fn(d, cfg)
    rep = set(reported_lines)
    missed = [sorted(m) for m in must if not (m & rep)]
    allowed = set().union(*must) if must else set()
    spurious = sorted(x for x in rep if x not in allowed and x not in silent)
    return missed, spurious, len(silent), len(must)
