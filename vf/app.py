"""Application-level driver: real `pymarkdown` invocations, in-process (PyMarkdownLint.main with the
API's recording presentation) or as a CLI subprocess, inside a private working directory with a
private TMPDIR so that every file-system effect can be observed.
"""
import hashlib
import os
import shutil
import subprocess
import tempfile

from vf import env, pm


class Sandbox:
    """Private cwd + private temp directory for one worker."""

    def __init__(self, root):
        self.root = os.path.abspath(root)
        self.cwd = os.path.join(self.root, "cwd")
        self.tmp = os.path.join(self.root, "tmp")
        self.reset()

    def reset(self):
        for d in (self.cwd, self.tmp):
            shutil.rmtree(d, ignore_errors=True)
            os.makedirs(d)
        tempfile.tempdir = self.tmp
        os.environ["TMPDIR"] = self.tmp
        os.chdir(self.cwd)

    def write(self, name, text, newline=""):
        p = os.path.join(self.cwd, name)
        os.makedirs(os.path.dirname(p), exist_ok=True)
        with open(p, "w", encoding="utf-8", newline=newline) as f:
            f.write(text)
        return p

    def write_bytes(self, name, data):
        p = os.path.join(self.cwd, name)
        os.makedirs(os.path.dirname(p), exist_ok=True)
        with open(p, "wb") as f:
            f.write(data)
        return p

    def read(self, name):
        with open(os.path.join(self.cwd, name), "rb") as f:
            return f.read()

    def snapshot(self):
        """{relative path: sha256} of everything under cwd and tmp."""
        out = {}
        for base, tag in ((self.cwd, "cwd"), (self.tmp, "tmp")):
            for dp, dn, fn in os.walk(base):
                for d in dn:
                    out[tag + ":" + os.path.relpath(os.path.join(dp, d), base) + "/"] = "dir"
                for f in fn:
                    p = os.path.join(dp, f)
                    try:
                        with open(p, "rb") as fh:
                            out[tag + ":" + os.path.relpath(p, base)] = hashlib.sha256(fh.read()).hexdigest()
                    except OSError as e:
                        out[tag + ":" + os.path.relpath(p, base)] = "unreadable:" + type(e).__name__
        return out

    def tmp_listing(self):
        return sorted(os.listdir(self.tmp))

    def clear_files(self):
        for d in (self.cwd, self.tmp):
            for n in os.listdir(d):
                p = os.path.join(d, n)
                if os.path.isdir(p) and not os.path.islink(p):
                    shutil.rmtree(p, ignore_errors=True)
                else:
                    try:
                        os.remove(p)
                    except OSError:
                        pass


class Outcome:
    __slots__ = ("rc", "out", "err", "failures", "pragma_errors", "fixed", "watchdog")

    def __init__(self, rc, p, watchdog=False):
        self.rc = rc
        self.watchdog = watchdog
        self.out = list(p.pso) if p else []
        self.err = list(p.pse) if p else []
        self.failures = (
            [
                (f.scan_file, f.line_number, f.column_number, f.rule_id, f.rule_name, f.rule_description, f.extra_error_information or "")
                for f in p.scan_failures
            ]
            if p
            else []
        )
        self.pragma_errors = [(e.file_path, e.line_number, e.pragma_error) for e in p.pragma_errors] if p else []
        self.fixed = list(p.files_fixed) if p else []
        # a failure of the environment (disk full, descriptor or memory exhaustion) says nothing about the tree
        # under test: such a run is inconclusive, exactly like one stopped by the CPU watchdog
        et = "".join(self.err)
        if any(x in et for x in ("No space left on device", "[Errno 28]", "Too many open files", "[Errno 24]", "Cannot allocate memory", "[Errno 12]", "MemoryError")):
            self.watchdog = True

    @property
    def errtext(self):
        return "".join(self.err)

    def fail_tuples(self, with_file=False):
        if with_file:
            return [(os.path.basename(f[0]), f[1], f[2], f[3], f[6]) for f in self.failures]
        return [(f[1], f[2], f[3], f[6]) for f in self.failures]

    @property
    def tokenization_error(self):
        return "BadTokenizationError" in self.errtext

    @property
    def plugin_error(self):
        return "BadPluginError" in self.errtext or "Plugin id '" in self.errtext


def invoke(args, string=None, cpu_s=10.0):
    """One in-process run of the real application."""
    from pymarkdown.api import _ApiPresentation
    from pymarkdown.main import PyMarkdownLint
    from pymarkdown.return_code_helper import ReturnCodeHelper

    ReturnCodeHelper.reset()
    p = _ApiPresentation()
    m = PyMarkdownLint(presentation=p, string_to_scan=string)
    rc = 0
    snap = _log_snapshot()
    try:
        with pm.cpu_limit(cpu_s):
            m.main(list(args))
    except SystemExit as e:
        rc = e.code if isinstance(e.code, int) else (0 if e.code is None else 99)
    except pm.CpuWatchdog:
        return Outcome(None, p, watchdog=True)
    finally:
        _log_restore(snap)
    return Outcome(rc, p)


def _log_snapshot():
    import logging

    root = logging.getLogger()
    return list(root.handlers), root.level


def _log_restore(snap):
    """The application registers its log handlers on the root logger and never removes them (harmless in a
    process that exits, which is how it is used).  This harness runs thousands of invocations in one process:
    a handler left behind by `--log-file` re-opens its file on every later record, so the workers of the
    thorough C16 run once wrote > 100 GB into deleted files.  After each invocation the handlers it added are
    removed and closed and the level is put back, which is also what a fresh process would start from."""
    import logging

    before, level = snap
    root = logging.getLogger()
    for h in list(root.handlers):
        if h not in before:
            root.removeHandler(h)
            try:
                h.close()
            except Exception:  # noqa: BLE001
                pass
    root.setLevel(level)


class ApiWatchdog(Exception):
    """A call through PyMarkdownApi used more CPU time than allowed: inconclusive for that call."""


def guarded(fn, cpu_s=20.0):
    """Run fn() (a PyMarkdownApi call) under the same CPU-time watchdog as invoke()."""
    snap = _log_snapshot()
    try:
        with pm.cpu_limit(cpu_s):
            return fn()
    except pm.CpuWatchdog:
        raise ApiWatchdog() from None
    finally:
        _log_restore(snap)


def rule_args(only=None, disable=None, enable=None):
    a = []
    if only is not None:
        dis = [r for r in pm.all_rules() if r not in only]
        if only:
            a += ["-e", ",".join(only)]
        if dis:
            a += ["-d", ",".join(dis)]
    else:
        if enable:
            a += ["-e", ",".join(enable)]
        if disable:
            a += ["-d", ",".join(disable)]
    return a


def scan_text(doc, only=None, sets=(), extra=(), enable=None, disable=None, cpu_s=10.0):
    args = ["--log-level", "CRITICAL"]
    for s in sets:
        args += ["--set", s]
    args += rule_args(only, disable, enable) + list(extra) + ["scan-stdin"]
    return invoke(args, doc, cpu_s=cpu_s)


def scan_files(paths, only=None, sets=(), extra=(), enable=None, disable=None, cpu_s=20.0, cmd="scan"):
    args = ["--log-level", "CRITICAL"]
    for s in sets:
        args += ["--set", s]
    args += rule_args(only, disable, enable) + list(extra) + [cmd] + list(paths)
    return invoke(args, cpu_s=cpu_s)


def fix_files(paths, **kw):
    return scan_files(paths, cmd="fix", **kw)


def cli(args, input_bytes=None, cwd=None, extra_env=None, timeout=120):
    """The real command line in a fresh process: python -m pymarkdown ..."""
    e = env.child_env(extra_env)
    r = subprocess.run(
        [env.PY, "-m", "pymarkdown"] + list(args), input=input_bytes, capture_output=True, cwd=cwd, env=e, timeout=timeout
    )
    return r.returncode, r.stdout.decode("utf-8", "replace"), r.stderr.decode("utf-8", "replace")


_FIX_RULES = None


def rule_table():
    """[(id, names, enabled_default, fix_capable)] from `plugins list --all` of the tree under test."""
    global _FIX_RULES
    if _FIX_RULES is None:
        pm.all_rules()
        rows = []
        for w in pm._ALL:
            if w[0] == "md999":
                continue
            # columns: id names... enabled(default) enabled(current) version fix
            rows.append((w[0], w[1:-4], w[-4] == "True", w[-1] == "Yes"))
        _FIX_RULES = rows
    return _FIX_RULES


def fix_capable(default_only=False):
    return [r[0] for r in rule_table() if r[3] and (r[2] or not default_only)]


def default_enabled():
    return [r[0] for r in rule_table() if r[2]]


def fix_text(sb, doc, name="doc.md", **kw):
    """Write doc to a file in the sandbox, run the real `fix` on it, return (Outcome, text after)."""
    p = sb.write(name, doc)
    o = fix_files([p], **kw)
    try:
        after = sb.read(name).decode("utf-8")
    except UnicodeDecodeError:
        after = None
    return o, after


def fix_error_kind(o):
    """None if the fix run completed normally, else a short class of the error."""
    if o.watchdog:
        return "watchdog"
    t = o.errtext
    if "BadTokenizationError" in t:
        return "tokenization"
    if "BadPluginFixError" in t or "conflicted with" in t:
        return "fix-conflict"
    if "BadPluginError" in t or "Plugin id '" in t:
        return "plugin-error"
    if o.rc not in (0, 3) or ("Error" in t and o.rc != 0):
        return "other-error"
    return None
