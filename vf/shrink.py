"""Deterministic line/character ddmin of a violating document under "the same atomic mechanisms are
still observed".  Run as a subprocess by the runner for the first few unlisted violations:
    python -m vf.shrink <check> <in.json> <out.json>
"""
import importlib
import json
import sys
import time


def main():
    check, ip, op = sys.argv[1:4]
    job = json.load(open(ip, encoding="utf-8"))
    mod = importlib.import_module("vf.checks." + check.lower())
    want = set(job["signature"].split(";"))
    deadline = time.time() + job.get("budget_s", 20)
    case = job.get("case")

    def violates(doc):
        it = {"key": "SHRINK", "doc": doc, "case": case}
        try:
            r = mod.run_items([it], {"work": job["work"]})
        except Exception:
            return False
        for _k, sig, _d in r.get("viol", []):
            if want <= set(str(sig).split(";")):
                return True
        return False

    doc = job["doc"]
    if not violates(doc):
        json.dump({"shrunk": None, "note": "not reproducible in isolation"}, open(op, "w"))
        return
    # lines first, then characters
    for unit in ("line", "char"):
        parts = doc.split("\n") if unit == "line" else list(doc)
        joiner = "\n" if unit == "line" else ""
        n = 2
        while len(parts) >= 2 and time.time() < deadline:
            chunk = max(1, len(parts) // n)
            reduced = False
            for i in range(0, len(parts), chunk):
                cand = parts[:i] + parts[i + chunk:]
                if cand and violates(joiner.join(cand)):
                    parts = cand
                    n = max(n - 1, 2)
                    reduced = True
                    break
                if time.time() >= deadline:
                    break
            if not reduced:
                if chunk == 1:
                    break
                n = min(n * 2, len(parts))
        doc = joiner.join(parts)
        if unit == "line" and len(doc) > 400:
            break
    json.dump({"shrunk": doc}, open(op, "w"))


if __name__ == "__main__":
    main()
