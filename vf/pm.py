"""Harness around the real pymarkdown code: parser factory, deterministic step budget,
watchdogs, exception signatures, in-process application runs.

Nothing here edits /repo; everything is attached from outside.
"""
import os
import signal
import sys
import traceback

from vf import env

env.setup_path()

from application_properties import ApplicationProperties  # noqa: E402
from pymarkdown.extension_manager.extension_manager import ExtensionManager  # noqa: E402
from pymarkdown.general.main_presentation import MainPresentation  # noqa: E402
from pymarkdown.general.tokenized_markdown import TokenizedMarkdown  # noqa: E402
from pymarkdown.transform_gfm.transform_to_gfm import TransformToGfm  # noqa: E402
from pymarkdown.transform_markdown.transform_to_markdown import (  # noqa: E402
    TransformToMarkdown,
)

env.assert_repo_imported()

PKG_DIR = os.path.join(env.REPO, "pymarkdown") + os.sep


# ----------------------------------------------------------------------------- watchdogs
class BudgetExceeded(BaseException):
    """Deterministic step budget ran out (BaseException: the parser's `except Exception`
    wrappers must not be able to swallow it)."""


class CpuWatchdog(BaseException):
    """ITIMER_VIRTUAL fired: inconclusive for the execution it interrupted."""


def _vt_handler(signum, frame):
    raise CpuWatchdog()


signal.signal(signal.SIGVTALRM, _vt_handler)


class cpu_limit:
    def __init__(self, seconds):
        self.seconds = seconds

    def __enter__(self):
        # periodic after the first expiry: if the exception happens to be raised inside a frame that
        # swallows BaseException (seen in the pinned tree: a non-terminating list-closing loop kept
        # running after a one-shot timer), it is raised again 50 ms later until it gets through
        signal.setitimer(signal.ITIMER_VIRTUAL, self.seconds, 0.05)

    def __exit__(self, *a):
        signal.setitimer(signal.ITIMER_VIRTUAL, 0)
        return False


class StepCounter:
    """Counts function entries inside pymarkdown/ with sys.monitoring (PY_START).

    The count is a deterministic measure of work (no wall clock).  When `budget` is set and
    exceeded, BudgetExceeded is raised inside the monitored code; three stack snapshots are
    then taken 20k steps apart to name the loop (deepest common frame).
    """

    TOOL = 4

    def __init__(self):
        self.mon = sys.monitoring
        self.count = 0
        self.budget = None
        self.snap_at = None
        self.snaps = []
        self.exceeded = False
        self.active = False

    def start(self):
        m = self.mon
        try:
            m.use_tool_id(self.TOOL, "vf-steps")
        except ValueError:
            pass
        m.register_callback(self.TOOL, m.events.PY_START, self._cb)
        m.set_events(self.TOOL, m.events.PY_START)
        self.active = True

    def stop(self):
        m = self.mon
        m.set_events(self.TOOL, 0)
        m.register_callback(self.TOOL, m.events.PY_START, None)
        try:
            m.free_tool_id(self.TOOL)
        except ValueError:
            pass
        self.active = False

    def begin(self, budget=None):
        self.count = 0
        self.budget = budget
        self.snap_at = budget
        self.snaps = []
        self.exceeded = False

    def _cb(self, code, offset):
        if not code.co_filename.startswith(PKG_DIR):
            return self.mon.DISABLE
        self.count += 1
        if self.exceeded:
            # the first BudgetExceeded was swallowed by a frame of the monitored code (seen: the pinned tree's
            # list-closing loop): keep raising at every function entry until one gets through
            raise BudgetExceeded()
        if self.snap_at is not None and self.count >= self.snap_at:
            f = sys._getframe(1)
            st = []
            while f is not None:
                fn = f.f_code.co_filename
                if fn.startswith(PKG_DIR):
                    st.append(f"{os.path.basename(fn)}:{f.f_code.co_name}")
                f = f.f_back
            st.reverse()
            self.snaps.append(st)
            if len(self.snaps) >= 3:
                self.snap_at = None
                self.exceeded = True
                raise BudgetExceeded()
            self.snap_at = self.count + 20000
        return None

    def loop_site(self):
        """Deepest frame common to the snapshots taken after the budget ran out."""
        if not self.snaps:
            return "?"
        common = self.snaps[0]
        for s in self.snaps[1:]:
            n = 0
            while n < len(common) and n < len(s) and common[n] == s[n]:
                n += 1
            common = common[:n]
        return _demangle(common[-1]) if common else "?"


def _demangle(name):
    # private methods appear as _Class__name in co_name only through co_qualname; co_name is plain
    return name


# ----------------------------------------------------------------------------- parser factory
EXTENSIONS = {
    "fm": "front-matter",
    "st": "markdown-strikethrough",
    "tl": "markdown-task-list-items",
    "ea": "markdown-extended-autolinks",
    "dr": "markdown-disallow-raw-html",
    "pr": "linter-pragmas",
}


def ext_config(on):
    return {"extensions": {v: {"enabled": (k in on)} for k, v in EXTENSIONS.items()}}


def make_tokenizer(cfg=None):
    """Exactly how test/utils.py builds the parser."""
    t = TokenizedMarkdown()
    p = ApplicationProperties()
    if cfg:
        p.load_from_dict(cfg)
    em = ExtensionManager(MainPresentation())
    em.initialize(None, p)
    em.apply_configuration()
    t.apply_configuration(p, em)
    return t


def exc_signature(exc):
    """Mechanism of a failure: root of the __cause__ chain, exception class and
    file:function of the innermost pymarkdown frame (no line numbers)."""
    seen = set()
    c = exc
    while c.__cause__ is not None and id(c.__cause__) not in seen:
        seen.add(id(c))
        c = c.__cause__
    tb = traceback.extract_tb(c.__traceback__)
    frames = [f for f in tb if f.filename.startswith(PKG_DIR)]
    if frames:
        f = frames[-1]
        where = f"{os.path.basename(f.filename)}:{f.name}"
    elif tb:
        f = tb[-1]
        where = f"{os.path.basename(f.filename)}:{f.name}"
    else:
        where = "?"
    return f"{type(c).__name__}@{where}"


def exc_text(exc):
    c = exc
    seen = set()
    while c.__cause__ is not None and id(c.__cause__) not in seen:
        seen.add(id(c))
        c = c.__cause__
    return f"{type(c).__name__}: {str(c)[:200]}"


def parse(tokenizer, source, cpu_s=6.0, counter=None, budget=None):
    """Returns (kind, value, steps): kind in tokens | error | budget | watchdog."""
    if counter is not None:
        counter.begin(budget)
    try:
        with cpu_limit(cpu_s):
            toks = tokenizer.transform(source, show_debug=False)
        return "tokens", toks, (counter.count if counter else 0)
    except BudgetExceeded:
        return "budget", "BUDGET@" + counter.loop_site(), counter.count
    except CpuWatchdog:
        if counter is not None and counter.exceeded:
            return "budget", "BUDGET@" + counter.loop_site(), counter.count
        return "watchdog", None, (counter.count if counter else 0)
    except Exception as e:  # BadTokenizationError and anything else escaping the parser
        return "error", e, (counter.count if counter else 0)
    finally:
        if counter is not None:
            counter.budget = None
            counter.snap_at = None
            counter.exceeded = False


def to_markdown(tokens):
    return TransformToMarkdown().transform(tokens)


def to_html(tokens):
    return TransformToGfm().transform(tokens)


# ----------------------------------------------------------------------------- application runs
def run_main(args, string=None):
    """One in-process invocation of the real application (as the API does it)."""
    from pymarkdown.api import _ApiPresentation
    from pymarkdown.main import PyMarkdownLint

    p = _ApiPresentation()
    m = PyMarkdownLint(presentation=p, string_to_scan=string)
    rc = 0
    try:
        m.main(list(args))
    except SystemExit as e:
        rc = e.code if isinstance(e.code, int) else (0 if e.code is None else 99)
    return rc, p


_ALL = None


def all_rules():
    global _ALL
    if _ALL is None:
        rc, p = run_main(["plugins", "list", "--all"])
        rows = []
        for line in "".join(p.pso).split("\n"):
            w = line.split()
            if w and len(w[0]) == 5 and w[0][:2] in ("md", "pm") and w[0][2:].isdigit():
                rows.append(w)
        _ALL = rows
    # md999 is the project's debug-only rule (it print()s every token and line); it is not a lint rule
    return [r[0] for r in _ALL if r[0] != "md999"]


def failures_of(p):
    return [
        (f.line_number, f.column_number, f.rule_id, f.rule_name, f.extra_error_information or "")
        for f in p.scan_failures
    ]


def scan_string(doc, only=None, sets=(), extra=(), disable=None):
    """In-process `scan-stdin` of a string.  only=[ids] enables exactly those rules."""
    args = ["--log-level", "CRITICAL"]
    for s in sets:
        args += ["--set", s]
    if only is not None:
        dis = [r for r in all_rules() if r not in only]
        if only:
            args += ["-e", ",".join(only)]
        if dis:
            args += ["-d", ",".join(dis)]
    elif disable:
        args += ["-d", ",".join(disable)]
    args += list(extra) + ["scan-stdin"]
    rc, p = run_main(args, doc)
    return rc, failures_of(p), p
