"""Sixth group of frozen universes (own content hash, baselines *.F): enumerated shapes of four areas of the
specification in which the parser keeps multi-line state, written after groups A-E showed that small
enumerations reach narrow defects more reliably than random composition.

Z16 — link reference definitions: label x destination x title forms, each part on the same or the next
      line, valid and almost-valid, followed by a use; at top level, in a quote, in a list item, after a
      paragraph (cannot interrupt), followed by a setext underline / blank / text.
Z17 — fenced code blocks: fence character x opening length x indentation x info string x closing fence
      (same, longer, shorter, other character, indented 0-4, trailing blanks / text, missing) x context.
Z18 — lines that may be a thematic break, a setext underline, a list item or text ('---', '- - -', '***',
      '* * *', '===', '-', '--', '+', '1.', '_ _ _', ...) after a paragraph, a list item, a quote line, a
      blank line, a heading; followed by text or nothing.
Z19 — line endings inside a paragraph: 0-3 trailing blanks, backslash, tab, before every kind of next line
      (text, indented text, list marker, quote marker, heading, fence, blank, end of document), in a
      paragraph, a list item, a quote and a heading.
"""
import hashlib
import os

from vf import universe as U


def _ctx(lines, c):
    """wrap the lines of a document in a context"""
    if c == 0:
        return lines
    if c == 1:
        return ["> " + x if x else ">" for x in lines]
    if c == 2:
        return ["- " + lines[0]] + ["  " + x if x else "" for x in lines[1:]]
    if c == 3:
        return ["1. " + lines[0]] + ["   " + x if x else "" for x in lines[1:]]
    if c == 4:
        return ["para"] + lines
    return ["> - " + lines[0]] + [">   " + x if x else ">" for x in lines[1:]]


# ------------------------------------------------------------------ Z16
_LABELS = ["[a]", "[a b]", "[A]", "[a\nb]", "[a\\]]", "[]", "[ ]", "[a]x", " [a]", "    [a]", "[a[b]]", "[é]"]
_DESTS = ["/u", "</u v>", "<>", "", "/u(v)", "/u(v", "<u\nv>", "/u\\ v", "u\tv"]
_TITLES = ["", '"t"', "'t'", "(t)", '"t\nu"', '"t\n\nu"', '"t" x', "'t", '"a "b" c"', '\\"t\\"']
_SEPS = [" ", "\n", "\n ", "  \n  ", ""]
_AFTER = [["", "[a]"], ["[a]"], ["===", "", "[a]"], ["text [a]"], ["[a]: /second", "", "[a]"]]


def _z16_docs():
    out = []
    for li, lab in enumerate(_LABELS):
        for di, dest in enumerate(_DESTS):
            for ti, title in enumerate(_TITLES):
                # thin out the product: all titles for two destinations, all destinations for two titles
                if not (di < 2 or ti < 2 or (li + di + ti) % 7 == 0):
                    continue
                for si, (s1, s2) in enumerate(((" ", " "), ("\n", " "), (" ", "\n"), ("\n ", "\n "), ("", " "))):
                    if si >= 2 and (li + di + ti + si) % 3:
                        continue
                    d = lab + ":" + s1 + dest + ((s2 + title) if title else "")
                    use = lab.strip().replace("\n", " ") if lab.strip().startswith("[") and lab.strip().endswith("]") else "[a]"
                    after = [x.replace("[a]", use) for x in _AFTER[(li + di + ti + si) % len(_AFTER)]]
                    c = (li * 3 + di + ti * 5 + si) % 6
                    out.append("\n".join(_ctx(d.split("\n") + after, c)) + "\n")
    return out


_Z16 = _z16_docs()
U.ZONES["Z16"] = (lambda i: _Z16[i], lambda: len(_Z16))


# ------------------------------------------------------------------ Z17
def _z17_docs():
    out = []
    infos = ["", "py", " py ", "py x=1", "`x`", "a~b", "\\*", "&amp;"]
    for ch in "`~":
        for n in (3, 4, 5):
            for ind in (0, 1, 3, 4):
                for ii, info in enumerate(infos):
                    if ch == "`" and "`" in info and n == 3 and ind == 4:
                        pass
                    closers = [ch * n, ch * (n + 1), ch * (n - 1), ("~" if ch == "`" else "`") * n, " " * 3 + ch * n, " " * 4 + ch * n, ch * n + "  ", ch * n + " x", None]
                    for ci, cl in enumerate(closers):
                        if (ii + ci + n + ind) % 3 and not (ii == 0 or ci < 2):
                            continue
                        body = ["code", "", "  more", ch * 2] if (ci + ii) % 2 else ["code"]
                        lines = [" " * ind + ch * n + info] + body + ([cl] if cl is not None else []) + ["after"]
                        c = (ii + ci + n + ind) % 6
                        out.append("\n".join(_ctx(lines, c)) + "\n")
    return out


_Z17 = _z17_docs()
U.ZONES["Z17"] = (lambda i: _Z17[i], lambda: len(_Z17))


# ------------------------------------------------------------------ Z18
_MARKS = ["---", "- - -", "***", "* * *", "===", "=", "-", "--", "+", "1.", "_ _ _", "___", " ---", "    ---", "--- x", "- -", "**", "=== =", "-\t-\t-", "1)", "+ +  +", "----------", "== ", "*"]
_BEFORE = [["para"], ["para", "more"], ["- item"], ["> quote"], [""], ["# h"], ["1. one"], ["    code"], ["- a", "", "  b"], ["<div>"], ["[a]: /u"], ["para  "]]
_FOLLOW = [[], ["text"], ["", "text"], ["  text"]]


def _z18_docs():
    out = []
    for bi, b in enumerate(_BEFORE):
        for mi, m in enumerate(_MARKS):
            for fi, f in enumerate(_FOLLOW):
                if fi >= 2 and (bi + mi + fi) % 2:
                    continue
                c = (bi + mi * 5 + fi) % 4  # contexts 0-3
                out.append("\n".join(_ctx(b + [m] + f, c)) + "\n")
    return out


_Z18 = _z18_docs()
U.ZONES["Z18"] = (lambda i: _Z18[i], lambda: len(_Z18))


# ------------------------------------------------------------------ Z19
_ENDS = ["", " ", "  ", "   ", "\\", "\t", " \\", "\\ ", "  \t", "\\\\", "*", "`"]
_NEXT = ["next", "  next", "    next", "- item", "> q", "# h", "```", "", None, "---", "1. one", "<div>", "*e*", "\\", "[a]: /u", "next  "]


def _z19_docs():
    out = []
    for ei, e in enumerate(_ENDS):
        for ni, nx in enumerate(_NEXT):
            for c in range(6):
                if c >= 4 and (ei + ni) % 2:
                    continue
                for head in ("text", "*em* `c` text", "# heading" if c == 0 else "a [l](/u) b"):
                    lines = [head + e] + ([nx] if nx is not None else [])
                    doc = "\n".join(_ctx(lines, c))
                    out.append(doc + ("" if nx is None and (ei + c) % 2 else "\n"))
    return out


_Z19 = _z19_docs()
U.ZONES["Z19"] = (lambda i: _Z19[i], lambda: len(_Z19))


def content_hash():
    h = hashlib.sha256()
    here = os.path.dirname(os.path.abspath(__file__))
    for p in (os.path.abspath(__file__), os.path.join(here, "prng.py")):
        with open(p, "rb") as f:
            h.update(f.read())
    return h.hexdigest()[:16]
