"""C08 oracle: a content fingerprint of a Markdown document computed from the *independent*
implementation's token stream (vendored markdown-it-py), with exactly the documented freedoms of the
fix-capable rules normalised away: whitespace, list marker / fence characters, ordered-list numbers
(when MD029 is active), code-block style (when MD046 is active), heading levels (when MD001 is
active), tight vs loose (blank lines are whitespace).
"""
import re

from markdown_it import MarkdownIt

_MD = MarkdownIt("commonmark")
_WS = re.compile(r"\s+")


def _t(s):
    return _WS.sub(" ", s).strip()


def _code(s):
    return "\n".join(_WS.sub(" ", ln).rstrip() for ln in s.split("\n")).strip("\n")


def fingerprint(src, active=(), loose_code_ws=False):
    """active: upper-case ids of the rules allowed to fix (decides which freedoms apply).
    loose_code_ws: compare code content modulo all whitespace (used when the document contains tabs: how
    a partially consumed tab is expanded inside containers differs between implementations)."""
    env = {}
    code = (lambda s: "\n".join(_WS.sub("", ln) for ln in s.split("\n")).strip("\n")) if loose_code_ws else _code
    toks = _MD.parse(src if src.endswith("\n") else src + "\n", env)
    lvl = "MD001" in active
    num = "MD029" in active
    sty = "MD046" in active
    out = []
    for t in toks:
        ty = t.type
        if ty == "heading_open":
            out.append(("h", "*" if lvl else t.tag))
        elif ty == "heading_close":
            out.append(("/h",))
        elif ty == "paragraph_open":
            out.append(("p",))
        elif ty == "paragraph_close":
            out.append(("/p",))
        elif ty == "bullet_list_open":
            out.append(("ul",))
        elif ty == "ordered_list_open":
            out.append(("ol", "*" if num else str(t.attrGet("start") or 1)))
        elif ty in ("bullet_list_close", "ordered_list_close"):
            out.append(("/list",))
        elif ty == "list_item_open":
            out.append(("li",))
        elif ty == "list_item_close":
            out.append(("/li",))
        elif ty == "blockquote_open":
            out.append(("bq",))
        elif ty == "blockquote_close":
            out.append(("/bq",))
        elif ty == "hr":
            out.append(("hr",))
        elif ty == "fence":
            out.append(("code", "*" if sty else "fenced", _t(t.info), code(t.content)))
        elif ty == "code_block":
            out.append(("code", "*" if sty else "indented", "", code(t.content)))
        elif ty == "html_block":
            out.append(("html", _t(t.content)))
        elif ty == "inline":
            text = []
            for c in t.children or []:
                cy = c.type
                if cy == "text":
                    text.append(c.content)
                elif cy in ("softbreak", "hardbreak"):
                    text.append(" ")
                else:
                    if text:
                        s = _t("".join(text)) if out and out[-1][0] != "txt" else "".join(text)
                        out.append(("txt", "".join(text)))
                        text = []
                    if cy == "code_inline":
                        out.append(("c", _t(c.content)))
                    elif cy == "em_open":
                        out.append(("em",))
                    elif cy == "em_close":
                        out.append(("/em",))
                    elif cy == "strong_open":
                        out.append(("strong",))
                    elif cy == "strong_close":
                        out.append(("/strong",))
                    elif cy == "link_open":
                        out.append(("a", c.attrGet("href") or "", _t(c.attrGet("title") or "")))
                    elif cy == "link_close":
                        out.append(("/a",))
                    elif cy == "image":
                        out.append(("img", c.attrGet("src") or "", _t(c.content), _t(c.attrGet("title") or "")))
                    elif cy == "html_inline":
                        out.append(("rh", _t(c.content)))
                    else:
                        out.append((cy,))
            if text:
                out.append(("txt", "".join(text)))
    # merge adjacent text nodes, normalise whitespace, drop empties
    merged = []
    for n in out:
        if n[0] == "txt" and merged and merged[-1][0] == "txt":
            merged[-1] = ("txt", merged[-1][1] + n[1])
        else:
            merged.append(n)
    # adjacent bullet lists are one list once their markers are made consistent (marker characters are
    # a documented freedom, so is the list boundary that only the marker change created)
    joined = []
    for n in merged:
        if n[0] == "ul" and joined and joined[-1] == ("/list",) and _closes_bullet(joined):
            joined.pop()
            continue
        joined.append(n)
    merged = joined
    final = []
    for n in merged:
        if n[0] == "txt":
            s = _t(n[1])
            if not s:
                continue
            n = ("txt", s)
        final.append(n)
    refs = sorted((k, v.get("href", ""), _t(v.get("title", "") or "")) for k, v in env.get("references", {}).items())
    if refs:
        final.append(("refs", tuple(refs)))
    return final


def _closes_bullet(seq):
    """True if the ('/list',) at the end of seq closes a bullet list."""
    depth = 0
    for n in reversed(seq):
        if n == ("/list",):
            depth += 1
        elif n[0] in ("ul", "ol"):
            depth -= 1
            if depth == 0:
                return n[0] == "ul"
    return False


def alnum_chars(fp):
    """multiset of letters and digits in text, code and raw HTML nodes (list numbers, markers and
    destinations are not text)."""
    import collections

    c = collections.Counter()
    for n in fp:
        if n[0] in ("txt", "c", "html", "rh"):
            c.update(ch for ch in n[1] if ch.isalnum())
        elif n[0] == "code":
            c.update(ch for ch in n[3] if ch.isalnum())
        elif n[0] == "img":
            c.update(ch for ch in n[2] if ch.isalnum())
    return c


def first_difference(a, b):
    for i, (x, y) in enumerate(zip(a, b)):
        if x != y:
            return i, x, y
    if len(a) != len(b):
        i = min(len(a), len(b))
        return i, (a[i] if i < len(a) else None), (b[i] if i < len(b) else None)
    return None


def text_chars(fp):
    """multiset of non-whitespace text characters (txt, code, inline code)."""
    import collections

    c = collections.Counter()
    for n in fp:
        if n[0] in ("txt", "c"):
            c.update(ch for ch in n[1] if not ch.isspace())
        elif n[0] == "code":
            c.update(ch for ch in n[3] if not ch.isspace())
    return c
