"""vf: runtime-monitoring framework for pymarkdown's twenty semantic properties."""
