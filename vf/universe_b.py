"""Second group of frozen universes (added after group A's baselines were computed; kept in its own
module with its own content hash so that group A's baselines stay valid).

Z5 — inline soup: the inline pass is where delimiter runs, links and code spans interact.
  part A (exhaustive): every sequence of 1..5 tokens over a 12-token inline alphabet
  part B (random, frozen): sequences of 6..12 tokens over a 36-token inline alphabet, one to three
         lines, sometimes inside a block quote / list item / heading
"""
import hashlib
import os

from vf import universe as U
from vf.prng import R

I1 = ["*", "**", "_", "__", "a", " ", "`", "[", "]", "(/u)", "<b>", "\\"]
I2 = I1 + [
    "***", "~~", "![", "&amp;", "&", "<", ">", '"t"', "!", "a*b", "b", "[a]", "(", ")", "<http://x.y>", "``", "é", ".", "#", "-", "_a_", "*a*",
    "](/u)", "[b](/u)", " b", "c ",
]
_A = sum(len(I1) ** k for k in range(1, 6))
Z5_B = 200000


def _seq(table, maxlen, i):
    n = len(table)
    for ln in range(1, maxlen + 1):
        c = n**ln
        if i < c:
            out = []
            for _ in range(ln):
                out.append(table[i % n])
                i //= n
            return "".join(out)
        i -= c
    raise IndexError


def z5(i):
    if i < _A:
        return _seq(I1, 5, i)
    j = i - _A
    r = R(0x5000000 + j)
    lines = []
    for _ in range(r.choice([1, 1, 1, 2, 2, 3])):
        lines.append("".join(r.choice(I2) for _ in range(r.randint(6, 12))))
    wrap = r.below(10)
    if wrap == 0:
        lines = ["> " + x for x in lines]
    elif wrap == 1:
        lines = ["- " + lines[0]] + ["  " + x for x in lines[1:]]
    elif wrap == 2:
        lines[0] = "# " + lines[0]
    elif wrap == 3 and len(lines) > 1:
        lines[0] += r.choice(["  ", "\\"])
    s = "\n".join(lines)
    if r.chance(0.7):
        s += "\n"
    if len(lines) > 1 and r.chance(0.25):
        s += "\n[a]: /u\n"
    return s


def z5_size():
    return _A + Z5_B


U.ZONES["Z5"] = (z5, z5_size)


def content_hash():
    h = hashlib.sha256()
    for p in (os.path.abspath(__file__), os.path.join(os.path.dirname(os.path.abspath(__file__)), "prng.py")):
        with open(p, "rb") as f:
            h.update(f.read())
    return h.hexdigest()[:16]
