"""Second group of frozen universes (added after group A's baselines were computed; kept in its own
module with its own content hash so that group A's baselines stay valid).

Z5 — inline soup: the inline pass is where delimiter runs, links and code spans interact.
  part A (exhaustive): every sequence of 1..5 tokens over a 12-token inline alphabet
  part B (random, frozen): sequences of 6..12 tokens over a 36-token inline alphabet, one to three
         lines, sometimes inside a block quote / list item / heading
"""
import hashlib
import os

from vf import universe as U
from vf.prng import R

I1 = ["*", "**", "_", "__", "a", " ", "`", "[", "]", "(/u)", "<b>", "\\"]
I2 = I1 + [
    "***", "~~", "![", "&amp;", "&", "<", ">", '"t"', "!", "a*b", "b", "[a]", "(", ")", "<http://x.y>", "``", "é", ".", "#", "-", "_a_", "*a*",
    "](/u)", "[b](/u)", " b", "c ",
]
_A = sum(len(I1) ** k for k in range(1, 6))
Z5_B = 200000


def _seq(table, maxlen, i):
    n = len(table)
    for ln in range(1, maxlen + 1):
        c = n**ln
        if i < c:
            out = []
            for _ in range(ln):
                out.append(table[i % n])
                i //= n
            return "".join(out)
        i -= c
    raise IndexError


def z5(i):
    if i < _A:
        return _seq(I1, 5, i)
    j = i - _A
    r = R(0x5000000 + j)
    lines = []
    for _ in range(r.choice([1, 1, 1, 2, 2, 3])):
        lines.append("".join(r.choice(I2) for _ in range(r.randint(6, 12))))
    wrap = r.below(10)
    if wrap == 0:
        lines = ["> " + x for x in lines]
    elif wrap == 1:
        lines = ["- " + lines[0]] + ["  " + x for x in lines[1:]]
    elif wrap == 2:
        lines[0] = "# " + lines[0]
    elif wrap == 3 and len(lines) > 1:
        lines[0] += r.choice(["  ", "\\"])
    s = "\n".join(lines)
    if r.chance(0.7):
        s += "\n"
    if len(lines) > 1 and r.chance(0.25):
        s += "\n[a]: /u\n"
    return s


def z5_size():
    return _A + Z5_B


U.ZONES["Z5"] = (z5, z5_size)


# ------------------------------------------------------------------ Z6: specification boundaries
# every numeric limit the specification states, swept across the boundary, in three contexts
_P = "!\"#$%&'()*+,-./:;<=>?@[\\]^_`{|}~"


def _b(n):
    return [
        "#" * n + " h",                                   # ATX: 1..6
        "#" * n,                                          # empty ATX
        " " * n + "# h",                                  # indentation 0..3 vs 4
        " " * n + "- a",
        " " * n + "> a",
        " " * n + "```\nc\n```",
        " " * n + "---",
        " " * n + "code?",
        "a\n" + " " * n + "===",                          # setext underline indentation
        "a\n" + "=" * n,
        "a\n" + "-" * n,
        "-" * n,                                          # thematic break length
        "*" * n,
        "_ " * n,
        "`" * n + "c" + "`" * n,                          # code span fence lengths
        "`" * n + "\ncode\n" + "`" * n,                   # fenced block fence length
        "~" * n + "\ncode\n" + "~" * 3,
        "```\ncode\n" + "`" * n,                          # closing fence shorter/longer
        "1" * n + ". item",                               # ordered list number digits 1..9
        "1" * n + ") item",
        "-" + " " * n + "item",                           # spaces after list marker 1..4 vs 5
        "1." + " " * n + "item",
        "- a\n" + " " * n + "b",                          # continuation indentation
        "- a\n\n" + " " * n + "b",
        "1. a\n\n" + " " * n + "b",
        "> a\n" + " " * n + "> b",
        "<" + "a" * n + ":x>",                            # URI scheme length 2..32
        "<" + "a" * n + ":" + "b" * 3 + ">",
        "<a" + "b" * n + "@c.d>",
        "&#" + "1" * n + ";",                             # numeric entity digits 1..7
        "&#x" + "f" * n + ";",
        "&" + "a" * n + ";",
        "[a](" + "(" * n + "b" + ")" * n + ")",           # balanced parentheses in destination
        "[" * n + "a" + "]" * n + "(/u)",
        "[a](/u " + '"' + "t" * n + '")',
        "[" + "a" * (n * 30) + "]: /u\n\n[" + "a" * (n * 30) + "]",   # label length towards 999
        "*" * n + "a" + "*" * n,                          # emphasis run lengths
        "_" * n + "a" + "_" * n,
        "*" * n + "a" + "*" * max(0, n - 1),
        "a" + " " * n + "\nb",                            # trailing spaces: hard break at >= 2
        "a" + "\\" * n + "\nb",
        "\t" * (n % 4) + " " * (n // 4) + "a",
        "-" + "\t" * (n % 3 + 1) + "a" + " " * (n // 3),
        "<" + "div" + " a" * n + ">",
        "<!" + "-" * n + " c " + "-" * n + ">",
        "a" * n + "_b_" + "c" * (n % 3),
        # lexical edges
        "<a@" + "b" * (n * 2) + "_c>",                    # e-mail autolink: long host label then an invalid character
        "<a@" + "b" * n + "." + "c" * n + ">",
        "[a](/x%" + "2f0"[: n % 4] + ")",                 # percent sequence at the very end of a destination
        "[r]: /x%" + "f0"[: n % 3] + "\n\n[r]",
        "![i](</x%" + "2"[: n % 2] + "> 't')",
        "\\" + _P[n % 32] + " a",                         # backslash escape of every ASCII punctuation character
        "[a](/u\\" + _P[n % 32] + ")",
        "a" + _P[n % 32] + "*b*" + _P[(n * 7) % 32] + "c",  # flanking next to punctuation
        _P[n % 32] + "_b_" + _P[n % 32],
        "**a" + _P[n % 32] + "**b",
        "[a" + _P[n % 32] + "]: /u\n\n[a" + _P[n % 32] + "]",
        "<b " + "x" + "=" + ['"v"', "'v'", "v", '"v', "", "=", "'"][n % 7] + ">",
        "&" + ["amp", "lt", "nbsp", "copy", "AElig", "Dcaron", "frac34", "HilbertSpace", "ngE", "xyz", "AMP", "#0", "#x0"][n % 13] + ";",
        "[a](" + ["/u", "<u>", "<u v>", "u v", "<u\n>", "", "<>", "\\(", "(", "a(b)c", "a(b", "<a>b"][n % 12] + ")",
        "[a](/u " + ['"t"', "'t'", "(t)", '"t', "'t\"", "(t))", '"a\\"b"', "t", '""', "( )"][n % 10] + ")",
        "`" * (n % 4 + 1) + " " * (n // 4 % 3) + "c" + " " * (n // 12 % 3) + "`" * (n % 4 + 1),
    ]


Z6_N = 41
_Z6_FAM = len(_b(3))


def z6(i):
    ctx, j = i % 3, i // 3
    fam, n = j % _Z6_FAM, j // _Z6_FAM
    d = _b(n)[fam]
    if ctx == 1:
        d = "\n".join("> " + ln for ln in d.split("\n"))
    elif ctx == 2:
        ls = d.split("\n")
        d = "\n".join(["- " + ls[0]] + ["  " + ln for ln in ls[1:]])
    return d + "\n"


def z6_size():
    return 3 * _Z6_FAM * Z6_N


U.ZONES["Z6"] = (z6, z6_size)


# ------------------------------------------------------------------ Z7: rule-trigger documents
# snippets written to make each fix-capable / reporting rule fire, with repetition and in combination
def _snip(r):
    k = r.below(30)
    w = lambda: r.choice(["alpha", "beta", "gamma", "x", "width", "height"])  # noqa: E731
    sp = lambda a, b: " " * r.randint(a, b)  # noqa: E731
    if k == 0:
        lv = [r.randint(1, 5) for _ in range(r.randint(2, 4))]
        out = []
        for x in lv:
            out += ["#" * x + " " + w() + r.choice(["", "", ".", "?", " #"]), ""]
        return out[:-1]
    if k == 1:
        return [r.choice("*-+") + " " + w() for _ in range(r.randint(2, 4))]
    if k == 2:
        m = r.choice("*-+")
        return [m + " a", sp(0, 1) + m + " b", sp(0, 3) + r.choice("*-+") + " c", m + " d"]
    if k == 3:
        return ["* a", sp(2, 5) + "* nested", sp(2, 7) + "* more", "* b"]
    if k == 4:
        return [w() + " " + w() + sp(1, 4), w() + sp(0, 3), w()]
    if k == 5:
        return [w() + "\t" + w(), "\t" + w() if r.chance(0.3) else w() + " \t" + w()]
    if k == 6:
        return [w()] + [""] * r.randint(2, 4) + [w()]
    if k == 7:
        return ["#" + sp(1, 3) + w() + r.choice(["", sp(1, 3) + "#", " #"])]
    if k == 8:
        return [sp(1, 3) + "# " + w()] if r.chance(0.6) else [sp(0, 2) + w(), sp(0, 2) + r.choice(["===", "---"])]
    if k == 9:
        return [">" + sp(1, 3) + w(), ">" + sp(1, 3) + w() + " " + w(), r.choice([">", "> ", ">  "]) + w()]
    if k == 10:
        st = r.choice([0, 1, 1, 2, 5])
        nums = [st + r.choice([0, 1, 1, 2]) * i for i in range(r.randint(2, 4))]
        d = r.choice(".)")
        return [f"{x}{d}" + sp(1, 3) + w() for x in nums]
    if k == 11:
        return [r.choice("-*+") + sp(1, 4) + w(), r.choice(["1.", "10."]) + sp(1, 3) + w()]
    if k == 12:
        f = r.choice(["```", "~~~"])
        pre = [w()] if r.chance(0.6) else []
        post = [w()] if r.chance(0.6) else []
        return pre + [f + r.choice(["", "py", ""]), "code" + sp(0, 2), f] + post
    if k == 13:
        return [r.choice(["---", "***", "___", "- - -"]), "", r.choice(["---", "***", "* * *"])]
    if k == 14:
        parts = []
        for _ in range(r.randint(1, 3)):
            m = r.choice(["*", "**", "_"])
            parts.append(w() + " " + m + sp(0, 2) + w() + sp(0, 2) + m)
        return [" ".join(parts) + " " + w() + r.choice(["", "."])]
    if k == 15:
        parts = []
        for _ in range(r.randint(1, 3)):
            bt = "`" * r.choice([1, 1, 2])
            inner = r.choice([w(), "`" + w() + "`" if len(bt) == 2 else w(), w() + " " + w(), "`" + w() if len(bt) == 2 else w(), w() + "`" if len(bt) == 2 else w()])
            parts.append(bt + sp(0, 2) + inner + sp(0, 2) + bt)
        return [w() + " " + " and ".join(parts)]
    if k == 16:
        return [" ".join("[" + sp(0, 2) + w() + sp(0, 2) + "](/" + w() + ")" for _ in range(r.randint(1, 3)))]
    if k == 17:
        a = ["```", "code", "```"] if r.chance(0.5) else ["    code", "    more"]
        b = ["~~~", "code", "~~~"] if r.chance(0.5) else ["    other"]
        return a + ["", w(), ""] + b
    if k == 18:
        return ["![](/" + w() + ".png) ![alt](/x.png) [" + w() + "]() [e](#)"]
    if k == 19:
        return ["<div>" + w() + "</div>", "", w() + " <b>" + w() + "</b> <br/>"]
    if k == 20:
        return [w() + " https://" + w() + ".example.com/" + w() + " (reversed)[link]"]
    if k == 21:
        return ["#" + w(), "", "##" + w() + " ##", "", "## " + w() + "##"]
    if k == 22:
        return [" ".join(w() for _ in range(r.randint(14, 24)))]
    if k == 23:
        return ["$ " + w(), "", "```", "$ ls", "$ pwd", "```"]
    if k == 24:
        return ["**" + w() + " " + w() + "**", "", "*" + w() + "*"]
    if k == 25:
        return ["# " + w(), "", "# " + w(), "", "## " + w(), "", "## " + w()]
    if k == 26:
        return ["1. a", "", "   " + w(), "", "1. b", "   - n", "     - m"]
    if k == 27:
        return ["> " + w(), "", "> " + w(), ">", ">", "> " + w()]
    if k == 28:
        return ["- [ ] " + w(), "- [x] " + w(), "", "term " + w() + "  ", "next"]
    return [w() + " " + w(), w()]


Z7_SIZE = 80000


def z7(i):
    r = R(0x7000000 + i)
    blocks = []
    for _ in range(r.choice([1, 2, 2, 3, 3, 4])):
        blocks.append(_snip(r))
    lines = []
    for b in blocks:
        if lines and r.chance(0.8):
            lines.append("")
        lines.extend(b)
    wrap = r.below(12)
    if wrap == 0:
        lines = [(">" if x == "" else "> " + x) for x in lines]
    elif wrap == 1:
        lines = ["- " + lines[0]] + [("" if x == "" else "  " + x) for x in lines[1:]]
    elif wrap == 2:
        lines = ["1. " + lines[0]] + [("" if x == "" else "   " + x) for x in lines[1:]]
    s = "\n".join(lines)
    if r.chance(0.85):
        s += "\n"
    return s


U.ZONES["Z7"] = (z7, lambda: Z7_SIZE)


# ------------------------------------------------------------------ Z8: multi-line inline constructs
# links / images / code spans / raw HTML whose parts are spread over lines, followed by further
# positioned inline elements; in paragraphs, block quotes, list items and setext headings
def _z8_inline(r):
    ws = lambda: r.choice(["", "", " ", "  ", "\n", " \n", "\n ", "\n  ", " \n "])  # noqa: E731
    w = lambda: r.choice(["a", "b c", "x", "lorem"])  # noqa: E731
    k = r.below(9)
    if k <= 2:
        text = r.choice([w(), w() + "\n" + w(), "*" + w() + "*", "`" + w() + "`"])
        dest = r.choice(["/u", "</u>", "/u/v", "<u v>"])
        title = r.choice(["", "", '"t"', "'t'", "(t)", '"t\nu"', "'t  u'"])
        link = "[" + text + "](" + ws() + dest + (ws() or " ") * bool(title) + title + ws() + ")"
        return ("!" if k == 2 else "") + link
    if k == 3:
        return "[" + w() + r.choice(["", "\n"]) + w() + "][r]"
    if k == 4:
        bt = "`" * r.choice([1, 2])
        return bt + w() + r.choice(["\n", " \n", "\n  ", " "]) + w() + bt
    if k == 5:
        return "<b" + r.choice(["\n", " ", "\n ", "  "]) + "c='d'" + r.choice(["", "\n", " "]) + ">"
    if k == 6:
        return r.choice(["*", "**", "_"]) + w() + r.choice(["\n", " "]) + w() + r.choice(["*", "**", "_"])
    if k == 7:
        return "<!-- " + w() + "\n" + w() + " -->"
    return w() + r.choice(["  \n", "\\\n", "\n"]) + w()


Z8_SIZE = 40000


def z8(i):
    r = R(0x8000000 + i)
    parts = [_z8_inline(r) for _ in range(r.randint(2, 4))]
    tail = r.choice(["*x*", "`c`", "<i>", "[l](/m)", "<http://x.y>", "![i](/j)", "**s**", "end"])
    body = " ".join(parts) + " " + tail
    if r.chance(0.3):
        body = r.choice(["a", "lead in", "*e*"]) + " " + body
    lines = body.split("\n")
    ctx = r.below(8)
    if ctx == 0:
        pre = r.choice(["> ", ">", ">  "])
        lines = [pre + x if not r.chance(0.15) or j == 0 else x for j, x in enumerate(lines)]
    elif ctx == 1:
        lines = ["- " + lines[0]] + [("  " if not r.chance(0.15) else "") + x for x in lines[1:]]
    elif ctx == 2:
        lines = ["1. " + lines[0]] + ["   " + x for x in lines[1:]]
    elif ctx == 3:
        lines = lines + [r.choice(["===", "---"])]
    elif ctx == 4:
        lines = ["> - " + lines[0]] + [">   " + x for x in lines[1:]]
    s = "\n".join(lines)
    if r.chance(0.8):
        s += "\n"
    if "[r]" in s:
        s += "\n[r]: /ref\n"
    return s


U.ZONES["Z8"] = (z8, lambda: Z8_SIZE)


def content_hash():
    h = hashlib.sha256()
    for p in (os.path.abspath(__file__), os.path.join(os.path.dirname(os.path.abspath(__file__)), "prng.py")):
        with open(p, "rb") as f:
            h.update(f.read())
    return h.hexdigest()[:16]
