"""Second group of frozen universes (added after group A's baselines were computed; kept in its own
module with its own content hash so that group A's baselines stay valid).

Z5 — inline soup: the inline pass is where delimiter runs, links and code spans interact.
  part A (exhaustive): every sequence of 1..5 tokens over a 12-token inline alphabet
  part B (random, frozen): sequences of 6..12 tokens over a 36-token inline alphabet, one to three
         lines, sometimes inside a block quote / list item / heading
"""
import hashlib
import os

from vf import universe as U
from vf.prng import R

I1 = ["*", "**", "_", "__", "a", " ", "`", "[", "]", "(/u)", "<b>", "\\"]
I2 = I1 + [
    "***", "~~", "![", "&amp;", "&", "<", ">", '"t"', "!", "a*b", "b", "[a]", "(", ")", "<http://x.y>", "``", "é", ".", "#", "-", "_a_", "*a*",
    "](/u)", "[b](/u)", " b", "c ",
]
_A = sum(len(I1) ** k for k in range(1, 6))
Z5_B = 200000


def _seq(table, maxlen, i):
    n = len(table)
    for ln in range(1, maxlen + 1):
        c = n**ln
        if i < c:
            out = []
            for _ in range(ln):
                out.append(table[i % n])
                i //= n
            return "".join(out)
        i -= c
    raise IndexError


def z5(i):
    if i < _A:
        return _seq(I1, 5, i)
    j = i - _A
    r = R(0x5000000 + j)
    lines = []
    for _ in range(r.choice([1, 1, 1, 2, 2, 3])):
        lines.append("".join(r.choice(I2) for _ in range(r.randint(6, 12))))
    wrap = r.below(10)
    if wrap == 0:
        lines = ["> " + x for x in lines]
    elif wrap == 1:
        lines = ["- " + lines[0]] + ["  " + x for x in lines[1:]]
    elif wrap == 2:
        lines[0] = "# " + lines[0]
    elif wrap == 3 and len(lines) > 1:
        lines[0] += r.choice(["  ", "\\"])
    s = "\n".join(lines)
    if r.chance(0.7):
        s += "\n"
    if len(lines) > 1 and r.chance(0.25):
        s += "\n[a]: /u\n"
    return s


def z5_size():
    return _A + Z5_B


U.ZONES["Z5"] = (z5, z5_size)


# ------------------------------------------------------------------ Z6: specification boundaries
# every numeric limit the specification states, swept across the boundary, in three contexts
def _b(n):
    return [
        "#" * n + " h",                                   # ATX: 1..6
        "#" * n,                                          # empty ATX
        " " * n + "# h",                                  # indentation 0..3 vs 4
        " " * n + "- a",
        " " * n + "> a",
        " " * n + "```\nc\n```",
        " " * n + "---",
        " " * n + "code?",
        "a\n" + " " * n + "===",                          # setext underline indentation
        "a\n" + "=" * n,
        "a\n" + "-" * n,
        "-" * n,                                          # thematic break length
        "*" * n,
        "_ " * n,
        "`" * n + "c" + "`" * n,                          # code span fence lengths
        "`" * n + "\ncode\n" + "`" * n,                   # fenced block fence length
        "~" * n + "\ncode\n" + "~" * 3,
        "```\ncode\n" + "`" * n,                          # closing fence shorter/longer
        "1" * n + ". item",                               # ordered list number digits 1..9
        "1" * n + ") item",
        "-" + " " * n + "item",                           # spaces after list marker 1..4 vs 5
        "1." + " " * n + "item",
        "- a\n" + " " * n + "b",                          # continuation indentation
        "- a\n\n" + " " * n + "b",
        "1. a\n\n" + " " * n + "b",
        "> a\n" + " " * n + "> b",
        "<" + "a" * n + ":x>",                            # URI scheme length 2..32
        "<" + "a" * n + ":" + "b" * 3 + ">",
        "<a" + "b" * n + "@c.d>",
        "&#" + "1" * n + ";",                             # numeric entity digits 1..7
        "&#x" + "f" * n + ";",
        "&" + "a" * n + ";",
        "[a](" + "(" * n + "b" + ")" * n + ")",           # balanced parentheses in destination
        "[" * n + "a" + "]" * n + "(/u)",
        "[a](/u " + '"' + "t" * n + '")',
        "[" + "a" * (n * 30) + "]: /u\n\n[" + "a" * (n * 30) + "]",   # label length towards 999
        "*" * n + "a" + "*" * n,                          # emphasis run lengths
        "_" * n + "a" + "_" * n,
        "*" * n + "a" + "*" * max(0, n - 1),
        "a" + " " * n + "\nb",                            # trailing spaces: hard break at >= 2
        "a" + "\\" * n + "\nb",
        "\t" * (n % 4) + " " * (n // 4) + "a",
        "-" + "\t" * (n % 3 + 1) + "a" + " " * (n // 3),
        "<" + "div" + " a" * n + ">",
        "<!" + "-" * n + " c " + "-" * n + ">",
        "a" * n + "_b_" + "c" * (n % 3),
    ]


Z6_N = 41
_Z6_FAM = len(_b(3))


def z6(i):
    ctx, j = i % 3, i // 3
    fam, n = j % _Z6_FAM, j // _Z6_FAM
    d = _b(n)[fam]
    if ctx == 1:
        d = "\n".join("> " + ln for ln in d.split("\n"))
    elif ctx == 2:
        ls = d.split("\n")
        d = "\n".join(["- " + ls[0]] + ["  " + ln for ln in ls[1:]])
    return d + "\n"


def z6_size():
    return 3 * _Z6_FAM * Z6_N


U.ZONES["Z6"] = (z6, z6_size)


def content_hash():
    h = hashlib.sha256()
    for p in (os.path.abspath(__file__), os.path.join(os.path.dirname(os.path.abspath(__file__)), "prng.py")):
        with open(p, "rb") as f:
            h.update(f.read())
    return h.hexdigest()[:16]
