"""Token-level monitors: C02 identity, C04 nesting automaton, C05 position oracle.

Each monitor is a pure function over what the real parser returned; it returns a list of
violation strings (the *mechanism*, no sample data) — empty list = held on this execution.
"""

CONT = {"block-quote", "ulist", "olist"}
LEAF_OPEN = {"para", "atx", "setext", "html-block", "fcode-block", "icode-block"}
LEAF_SOLO = {"tbreak", "BLANK", "link-ref-def", "front-matter"}
INL_OPEN = {"emphasis", "link"}
INL_SOLO = {
    "text", "icode-span", "hard-break", "uri-autolink", "email-autolink", "raw-html", "image", "task-list",
}
SKIP = {"end-of-stream", "pragma"}


# ------------------------------------------------------------------ C04
def c04(tokens):
    """Independent stack automaton over the token list."""
    v = []
    st = []
    n_tokens = 0
    for t in tokens:
        n = t.token_name
        if n in SKIP:
            continue
        n_tokens += 1
        if t.is_end_token:
            base = n[4:]
            if not st:
                v.append(f"end-without-open:{n}")
                continue
            top = st[-1]
            if top.token_name != base:
                v.append(f"end-mismatch:{n}-closes-{top.token_name}")
                idx = [j for j in range(len(st)) if st[j].token_name == base]
                if idx:
                    del st[idx[-1]:]
                continue
            if getattr(t, "start_markdown_token", None) is not top:
                v.append(f"end-refers-to-other-start:{n}")
            st.pop()
            continue
        topn = st[-1].token_name if st else "doc"
        if n == "li":
            if topn not in ("ulist", "olist"):
                v.append(f"li-in-{topn}")
            continue
        if n in CONT:
            if topn not in CONT and topn != "doc":
                v.append(f"container-{n}-in-{topn}")
            st.append(t)
            continue
        if n in LEAF_OPEN or n in LEAF_SOLO:
            if topn not in CONT and topn != "doc":
                # the parser legitimately represents blank lines inside html/code blocks as BLANK
                if not (n == "BLANK" and topn in ("html-block", "fcode-block", "icode-block")):
                    v.append(f"leaf-{n}-in-{topn}")
            if n in LEAF_OPEN:
                st.append(t)
            continue
        if n in INL_OPEN or n in INL_SOLO:
            if topn in CONT or topn == "doc":
                v.append(f"inline-{n}-in-{topn}")
            if n in INL_OPEN:
                st.append(t)
            continue
        v.append(f"unknown-token:{n}")
    if st:
        v.append("left-open:" + "/".join(x.token_name for x in st))
    return sorted(set(v)), n_tokens


# ------------------------------------------------------------------ C02
MARKER_CHARS = set("\u00fe\u8268\u8269\a\b\x02\x03\x04\x05\x06\x07")


def c02_diff_class(src, out):
    """Coarse class of a round-trip difference (mechanism, not sample)."""
    import difflib

    sm = difflib.SequenceMatcher(None, src, out, autojunk=False)
    lost = []
    added = []
    for tag, i1, i2, j1, j2 in sm.get_opcodes():
        if tag == "equal":
            continue
        lost.append(src[i1:i2])
        added.append(out[j1:j2])
    lo, ad = "".join(lost), "".join(added)

    def cls(s):
        if not s:
            return "none"
        if set(s) <= MARKER_CHARS:
            return "marker"
        if s.strip(" \t") == "":
            return "ws"
        if s.strip(" \t\n") == "":
            return "wsnl"
        if set(s) <= set(" \t\n>-+*0123456789.)"):
            return "prefix"
        return "text"

    return f"diff:lost-{cls(lo)}:added-{cls(ad)}"


# ------------------------------------------------------------------ C05
def detab(line):
    out = []
    col = 0
    for ch in line:
        if ch == "\t":
            n = 4 - (col % 4)
            out.append(" " * n)
            col += n
        else:
            out.append(ch)
            col += 1
    return "".join(out)


OPEN_CHARS = {
    "atx": "#",
    "tbreak": "-*_",
    "fcode-block": "`~",
    "ulist": "-+*",
    "block-quote": ">",
    "link": "[",
    "image": "!",
    "emphasis": "*_~",
    "icode-span": "`",
    "raw-html": "<",
    "uri-autolink": "<",
    "email-autolink": "<",
    "link-ref-def": "[",
    "setext": "=-",
}


def c05(src, tokens, lines=None):
    """Position clauses.  Columns are in tab-expanded coordinates (the code base's convention)."""
    v = set()
    lines = src.split("\n") if lines is None else lines
    dl = [detab(x) for x in lines]
    last_block_line = 0
    n_pos = 0
    list_depth = 0
    for t in tokens:
        n = t.token_name
        if n in SKIP:
            continue
        if t.is_end_token:
            if n in ("end-ulist", "end-olist"):
                list_depth -= 1
            continue
        if n in ("ulist", "olist"):
            list_depth += 1
        ln, col = t.line_number, t.column_number
        if ln == 0 and col == 0:
            continue  # token kinds that carry no position (text inside a paragraph etc.)
        n_pos += 1
        ctx = "L" if list_depth > 0 else "-"
        if not (1 <= ln <= len(lines)):
            v.add(f"{n}:line-out-of-range")
            continue
        L = dl[ln - 1]
        if not (1 <= col <= len(L) + 1):
            v.add(f"{n}:col-out-of-range")
            continue
        if (t.is_container or t.is_leaf) and n != "li":
            if ln < last_block_line:
                v.add(f"{n}:line-decreases")
            last_block_line = max(last_block_line, ln)
        ch = L[col - 1] if col <= len(L) else ""
        if n in OPEN_CHARS:
            if ch == "" or ch not in OPEN_CHARS[n]:
                v.add(f"{n}:open-char:{ctx}")
            if n == "setext":
                oln, ocol = t.original_line_number, t.original_column_number
                if not (1 <= oln <= ln) or not (1 <= ocol <= len(dl[oln - 1]) + 1):
                    v.add("setext:original-out-of-range")
                elif dl[oln - 1][ocol - 1 : ocol] in ("", " "):
                    v.add(f"setext:original-open-char:{ctx}")
        elif n == "olist":
            if not ch.isdigit():
                v.add(f"olist:open-char:{ctx}")
        elif n == "li":
            if not (ch.isdigit() or (ch and ch in "-+*")):
                v.add(f"li:open-char:{ctx}")
        elif n == "para":
            if ch == "" or ch in " \t":
                v.add(f"para:open-char:{ctx}")
        elif n == "html-block":
            rest = L[col - 1 :].lstrip(" ")
            if not rest.startswith("<"):
                v.add(f"html-block:open-char:{ctx}")
        elif n == "hard-break":
            if ch not in ("\\", " "):
                v.add(f"hard-break:open-char:{ctx}")
        elif n == "icode-block":
            if L.strip() == "":
                v.add(f"icode-block:blank-line:{ctx}")
    return sorted(v), n_pos
