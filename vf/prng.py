"""splitmix64: a tiny PRNG that is stable across interpreters (universes are frozen)."""
M = (1 << 64) - 1


class R:
    __slots__ = ("s",)

    def __init__(self, seed):
        self.s = (seed * 0x9E3779B97F4A7C15 + 0x1234567) & M

    def u64(self):
        self.s = (self.s + 0x9E3779B97F4A7C15) & M
        z = self.s
        z = ((z ^ (z >> 30)) * 0xBF58476D1CE4E5B9) & M
        z = ((z ^ (z >> 27)) * 0x94D049BB133111EB) & M
        return z ^ (z >> 31)

    def below(self, n):
        return self.u64() % n

    def randint(self, a, b):
        return a + self.u64() % (b - a + 1)

    def random(self):
        return (self.u64() >> 11) / float(1 << 53)

    def choice(self, seq):
        return seq[self.u64() % len(seq)]

    def chance(self, p):
        return self.random() < p

    def shuffle(self, lst):
        for i in range(len(lst) - 1, 0, -1):
            j = self.u64() % (i + 1)
            lst[i], lst[j] = lst[j], lst[i]

    def sample(self, n, k):
        """k distinct indices below n (k may exceed n: then all)."""
        if k >= n:
            return list(range(n))
        if k * 3 > n:
            idx = list(range(n))
            self.shuffle(idx)
            return sorted(idx[:k])
        seen = set()
        while len(seen) < k:
            seen.add(self.u64() % n)
        return sorted(seen)


def mix(*parts):
    """Deterministic 64-bit hash of ints/strs (not Python's hash())."""
    h = 0xCBF29CE484222325
    for p in parts:
        for b in (p if isinstance(p, bytes) else str(p).encode()):
            h = ((h ^ b) * 0x100000001B3) & M
        h = ((h ^ 0xFF) * 0x100000001B3) & M
    return h
