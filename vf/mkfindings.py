"""Developer tool (never run by a check): rebuild known_findings.json from the baseline proposals.

  python -m vf.mkfindings            # merge baseline/*.proposed.json into known_findings.json

Entries with status "fixed" are hand-maintained in known_findings.json and preserved.
"""
import glob
import json
import os

from vf import env

TEMPLATES = {
    "C01": "parsing fails: {sig}",
    "C02": "regenerated Markdown differs from the source: {sig}",
    "C03": "rendered HTML differs from the CommonMark reference at {sig}",
    "C04": "token stream is not well-nested: {sig}",
    "C05": "token position does not point at the element: {sig}",
    "C06": "rule verdict differs from the documented condition: {sig}",
    "C07": "scan output not clean: {sig}",
    "C08": "fix changes the content fingerprint: {sig}",
    "C09": "fix does not converge: {sig}",
    "C10": "fix reporting / read-only violated: {sig}",
    "C11": "pragma not exact / not invisible: {sig}",
    "C12": "rules not independent: {sig}",
    "C13": "result depends on earlier files: {sig}",
    "C14": "plugin life-cycle violated: {sig}",
    "C15": "failure not contained: {sig}",
    "C16": "entry points disagree: {sig}",
    "C17": "configuration precedence violated: {sig}",
    "C18": "exit code differs from the documented table: {sig}",
    "C19": "file discovery differs from the documented set: {sig}",
    "C20": "extension not inert: {sig}",
}


def short(x, n=140):
    s = repr(x)
    return s if len(s) <= n else s[: n - 3] + "..."


def main():
    path = os.path.join(env.VERIF, "known_findings.json")
    old = {"findings": []}
    if os.path.exists(path):
        old = json.load(open(path, encoding="utf-8"))
    fixed_path = os.path.join(env.VERIF, "known_findings_fixed.json")
    keep = json.load(open(fixed_path, encoding="utf-8"))["fixed"] if os.path.exists(fixed_path) else []
    out = list(keep)
    from vf import findings
    from vf import universe as U
    from vf import universe_b  # noqa: F401 (registers group B zones)
    from vf import universe_c  # noqa: F401 (registers group C zones)
    from vf import universe_d  # noqa: F401 (registers group D zones)
    from vf import universe_e  # noqa: F401 (registers group E zones)
    from vf import universe_f  # noqa: F401 (registers group F zones)
    from vf import universe_g  # noqa: F401 (registers group G zones)
    from vf import universe_h  # noqa: F401 (registers group H zones)

    for bp in sorted(glob.glob(os.path.join(env.VERIF, "baseline", "*.json.gz"))):
        name = os.path.basename(bp)[: -len(".json.gz")]
        import importlib

        canon = getattr(importlib.import_module("vf.checks." + name.split(".")[0].lower()), "canon_signature", None)
        if name.split(".")[0] == "C03":
            from vf import htmlcmp

            canon = htmlcmp.canon
        b = findings.load_baseline(name, canon)
        prop = name.split(".")[0]
        counts, best = {}, {}
        for case, sig in b["map"].items():
            for a in findings.atoms(sig):
                counts[a] = counts.get(a, 0) + 1
            if case[0] == "Z" and case[1].isdigit():
                doc = U.case_doc(case)
                for a in findings.atoms(sig):
                    if a not in best or len(doc) < len(best[a][1]):
                        best[a] = (case, doc)
        prop_file = os.path.join(env.VERIF, "baseline", name + ".proposed.json")
        proposed = json.load(open(prop_file, encoding="utf-8"))["witness"] if os.path.exists(prop_file) else {}
        n = 0
        for sig in sorted(counts):
            n += 1
            if sig in best:
                wit = {"case": best[sig][0], "doc": best[sig][1]}
                eg = short(best[sig][1])
            elif sig in proposed:
                det = proposed[sig]["detail"] if isinstance(proposed[sig]["detail"], dict) else {}
                if "history" in det:
                    wit = {"history": det["history"]}
                    eg = "history " + short(det["history"])
                elif "doc" in det and not str(det.get("case", "")).startswith(("K:", "F:", "E:", "S:", "X:", "D:", "H:", "P:", "R:", "I:", "SUB", "M:", "N:", "A:", "CF:", "API")):
                    wit = {"doc": det["doc"]}
                    if det.get("fm") is not None:
                        wit["fm"] = det["fm"]
                    eg = short(det["doc"])
                else:
                    c = det.get("case", proposed[sig]["case"])
                    wit = {"case": c}
                    extra = det.get("descr") or det.get("scenario") or det.get("label") or det.get("args") or det.get("pragma") or ""
                    eg = "case " + short(c, 40) + ((" " + short(extra, 110)) if extra else "")
            else:
                print("no witness for", prop, sig)
                continue
            out.append({
                "id": f"{name}-{n:03d}",
                "property": prop,
                "status": "known",
                "signature": sig,
                "what_fails": TEMPLATES[prop].format(sig=sig) + " — e.g. " + eg,
                "witness": wit,
                "inputs_in_frozen_universe": counts[sig],
            })
    json.dump({"note": "known = genuine defect of the pinned tree, recorded not repaired (see DESIGN.md); fixed = repaired by the named fix: commit, suppresses nothing",
               "findings": out}, open(path, "w", encoding="utf-8"), indent=1, ensure_ascii=False)
    print(len(out), "entries")


if __name__ == "__main__":
    main()
