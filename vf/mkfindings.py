"""Developer tool (never run by a check): rebuild known_findings.json from the baseline proposals.

  python -m vf.mkfindings            # merge baseline/*.proposed.json into known_findings.json

Entries with status "fixed" are hand-maintained in known_findings.json and preserved.
"""
import glob
import json
import os

from vf import env

TEMPLATES = {
    "C01": "parsing fails: {sig}",
    "C02": "regenerated Markdown differs from the source: {sig}",
    "C03": "rendered HTML differs from the CommonMark reference at {sig}",
    "C04": "token stream is not well-nested: {sig}",
    "C05": "token position does not point at the element: {sig}",
    "C06": "rule verdict differs from the documented condition: {sig}",
    "C07": "scan output not clean: {sig}",
    "C08": "fix changes the content fingerprint: {sig}",
    "C09": "fix does not converge: {sig}",
    "C10": "fix reporting / read-only violated: {sig}",
    "C11": "pragma not exact / not invisible: {sig}",
    "C12": "rules not independent: {sig}",
    "C13": "result depends on earlier files: {sig}",
    "C14": "plugin life-cycle violated: {sig}",
    "C15": "failure not contained: {sig}",
    "C16": "entry points disagree: {sig}",
    "C17": "configuration precedence violated: {sig}",
    "C18": "exit code differs from the documented table: {sig}",
    "C19": "file discovery differs from the documented set: {sig}",
    "C20": "extension not inert: {sig}",
}


def short(x, n=140):
    s = repr(x)
    return s if len(s) <= n else s[: n - 3] + "..."


def main():
    path = os.path.join(env.VERIF, "known_findings.json")
    old = {"findings": []}
    if os.path.exists(path):
        old = json.load(open(path, encoding="utf-8"))
    keep = [f for f in old["findings"] if f.get("status") == "fixed" or f.get("manual")]
    out = list(keep)
    for pp in sorted(glob.glob(os.path.join(env.VERIF, "baseline", "*.proposed.json"))):
        d = json.load(open(pp, encoding="utf-8"))
        prop = d["property"]
        n = 0
        for sig, w in sorted(d["witness"].items()):
            n += 1
            det = w["detail"] if isinstance(w["detail"], dict) else {}
            if "doc" in det and "history" not in det and "files" not in det and not str(det.get("case", "")).startswith(("K:", "F:", "E:", "S:", "X:", "D:", "H:", "P:", "SUB")):
                wit = {"doc": det["doc"]}
                if det.get("fm") is not None:
                    wit["fm"] = det["fm"]
                eg = short(det["doc"])
            elif "history" in det:
                wit = {"history": det["history"]}
                eg = "history " + short(det["history"])
            else:
                c = det.get("case", w["case"])
                wit = {"case": c}
                eg = "case " + short(c) + (" " + short(det.get("descr") or det.get("scenario") or det.get("label") or det.get("args") or "", 100))
            out.append({
                "id": f"{prop}-{n:03d}",
                "property": prop,
                "status": "known",
                "signature": sig,
                "what_fails": TEMPLATES[prop].format(sig=sig) + " — e.g. " + eg,
                "witness": wit,
                "inputs_in_frozen_universe": d["counts"].get(sig, 0),
            })
    json.dump({"note": "known = genuine defect of the pinned tree, recorded not repaired (see DESIGN.md); fixed = repaired by the named fix: commit, suppresses nothing",
               "findings": out}, open(path, "w", encoding="utf-8"), indent=1, ensure_ascii=False)
    print(len(out), "entries")


if __name__ == "__main__":
    main()
