#!/bin/sh
# developer tool: run every check's quick tier for the given seeds on the unchanged tree; all must exit 0
cd "$(dirname "$0")/.." || exit 2
SEEDS="${*:-0}"
for s in $SEEDS; do
  for i in 01 02 03 04 05 06 07 08 09 10 11 12 13 14 15 16 17 18 19 20; do
    t0=$(date +%s)
    VERIF_SEED=$s ./vcheck C$i quick > /tmp/sweep_C$i.$s.log 2>&1
    rc=$?
    t1=$(date +%s)
    echo "seed=$s C$i exit=$rc $((t1-t0))s $(grep -c '^KNOWN-FINDING' /tmp/sweep_C$i.$s.log) known $(grep -c '^VIOLATION' /tmp/sweep_C$i.$s.log) violations $(grep -E 'INCONCLUSIVE' /tmp/sweep_C$i.$s.log | head -1 | cut -c1-200)"
  done
done
